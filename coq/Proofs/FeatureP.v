(* C16: feature cropping on abstract rows. *)
From PV Require Import Model.Feature Proofs.WindowP.

Definition inb (n k : Z) : bool := (0 <=? k) && (k <? n).
Definition clamp (n k : Z) : Z := Z.max 0 (Z.min (n - 1) k).

Lemma zrange_nil i j : j <= i -> zrange i j = [].
Proof. intro H. unfold zrange. replace (Z.to_nat (j - i)) with O by lia. reflexivity. Qed.
Lemma zrange_cons i j : i < j -> zrange i j = i :: zrange (i + 1) j.
Proof.
  intro H. unfold zrange. replace (Z.to_nat (j - i)) with (S (Z.to_nat (j - (i + 1)))) by lia.
  cbn [seq map]. f_equal; [lia|]. rewrite <- seq_shift, map_map. apply map_ext. intro k. lia.
Qed.
Lemma zrange_app i m j : i <= m <= j -> zrange i j = zrange i m ++ zrange m j.
Proof.
  intro H. remember (Z.to_nat (m - i)) as k eqn:Ek. revert i Ek H.
  induction k as [|k IH]; intros i Ek H.
  - assert (m = i) by lia. subst. now rewrite (zrange_nil i i) by lia.
  - rewrite (zrange_cons i j) by lia. rewrite (zrange_cons i m) by lia. cbn [app]. f_equal. apply IH; lia.
Qed.
Lemma zrange_length i j : Z.of_nat (length (zrange i j)) = Z.max 0 (j - i).
Proof. unfold zrange. rewrite map_length, seq_length. lia. Qed.

Lemma filter_all {A} (f : A -> bool) l : (forall x, In x l -> f x = true) -> filter f l = l.
Proof.
  induction l as [|x l IH]; simpl; intro H; [reflexivity|].
  rewrite (H x (or_introl eq_refl)). f_equal. apply IH. intros y Hy. apply H. now right.
Qed.
Lemma filter_none' {A} (f : A -> bool) l : (forall x, In x l -> f x = false) -> filter f l = [].
Proof.
  induction l as [|x l IH]; simpl; intro H; [reflexivity|].
  rewrite (H x (or_introl eq_refl)). apply IH. intros y Hy. apply H. now right.
Qed.

(* clipping a range to [0, n) = keeping the indices that exist *)
Lemma clip_is_filter n a b : 0 <= n ->
  zrange (Z.max a 0) (Z.min b n) = filter (inb n) (zrange a b).
Proof.
  intro Hn. destruct (Z_le_gt_dec b a) as [Hba|Hab].
  - rewrite (zrange_nil a b) by lia. rewrite zrange_nil by lia. reflexivity.
  - destruct (Z_le_gt_dec (Z.min b n) (Z.max a 0)) as [He|Hne].
    + rewrite zrange_nil by lia. symmetry. apply filter_none'. intros k Hk. apply zrange_In in Hk. unfold inb. lia.
    + rewrite (zrange_app a (Z.max a 0) b) by lia.
      rewrite (zrange_app (Z.max a 0) (Z.min b n) b) by lia.
      rewrite !filter_app.
      rewrite (filter_none' _ (zrange a (Z.max a 0))) by (intros k Hk; apply zrange_In in Hk; unfold inb; lia).
      rewrite (filter_all _ (zrange (Z.max a 0) (Z.min b n))) by (intros k Hk; apply zrange_In in Hk; unfold inb; lia).
      rewrite (filter_none' _ (zrange (Z.min b n) b)) by (intros k Hk; apply zrange_In in Hk; unfold inb; lia).
      now rewrite app_nil_r.
Qed.

Definition clip1 (n : Z) (r : Z * Z) : list (Z * Z) :=
  if (snd r <? 0) || (fst r >=? n) then [] else [(Z.max (fst r) 0, Z.min (snd r) n)].
Fixpoint sum_rf (rs : list (Z * Z)) : Z :=
  match rs with [] => 0 | r :: t => (Z.min (snd r) 0 - Z.min (fst r) 0) + sum_rf t end.
Fixpoint sum_rl (n : Z) (rs : list (Z * Z)) : Z :=
  match rs with [] => 0 | r :: t => (Z.max (snd r) n - Z.max (fst r) n) + sum_rl n t end.

Lemma fclip_gen n rs : forall cl rf rl,
  fold_left (fun acc r =>
               let '(cl, rf, rl) := acc in
               let '(a, b) := r in
               let rf' := rf + (Z.min b 0 - Z.min a 0) in
               let rl' := rl + (Z.max b n - Z.max a n) in
               if (b <? 0) || (a >=? n) then (cl, rf', rl')
               else (cl ++ [(Z.max a 0, Z.min b n)], rf', rl')) rs (cl, rf, rl)
  = (cl ++ flat_map (clip1 n) rs, rf + sum_rf rs, rl + sum_rl n rs).
Proof.
  induction rs as [|[a b] rs IH]; intros cl rf rl; cbn [fold_left flat_map sum_rf sum_rl fst snd].
  - rewrite app_nil_r, !Z.add_0_r. reflexivity.
  - unfold clip1 at 1. cbn [fst snd]. destruct ((b <? 0) || (a >=? n)) eqn:E; rewrite IH; cbn [app].
    + f_equal; [f_equal|]; lia.
    + rewrite <- app_assoc. cbn [app]. f_equal; [f_equal|]; lia.
Qed.
Lemma fclip_spec n rs : fclip n rs = (flat_map (clip1 n) rs, sum_rf rs, sum_rl n rs).
Proof. unfold fclip. now rewrite fclip_gen. Qed.

(* without `fixed`: in order, exactly the selected rows that exist; never an error, never a wrap-around *)
Theorem fcrop_rows_spec n rs : 0 <= n ->
  fcrop_rows n rs false = flat_map (fun r => filter (inb n) (zrange (fst r) (snd r))) rs.
Proof.
  intro Hn. unfold fcrop_rows. rewrite fclip_spec.
  induction rs as [|[a b] rs IH]; cbn [flat_map fst snd]; [reflexivity|].
  rewrite flat_map_app, IH. f_equal. rewrite <- clip_is_filter by assumption.
  unfold clip1. cbn [fst snd]. destruct ((b <? 0) || (a >=? n)) eqn:E; cbn [flat_map fst snd].
  - rewrite zrange_nil by lia. reflexivity.
  - now rewrite app_nil_r.
Qed.
Corollary fcrop_rows_in_bounds n rs k : 0 <= n -> In k (fcrop_rows n rs false) -> 0 <= k < n.
Proof.
  intros Hn H. rewrite fcrop_rows_spec in H by assumption. apply in_flat_map in H as [r [_ H]].
  apply filter_In in H as [_ H]. unfold inb in H. lia.
Qed.

(* with `fixed` (one requested range a <= b, at least one row): exactly b - a rows, row k being
   row clamp(k) -- indices before the first / after the last frame replaced by copies of the
   first / last row *)
Lemma map_clamp_low n a b : b <= 0 \/ b <= a -> map (clamp n) (zrange a b) = zrepeat 0 (b - a).
Proof.
  intro H. unfold zrepeat. remember (Z.to_nat (b - a)) as k eqn:Ek. revert a Ek H.
  induction k as [|k IH]; intros a Ek H.
  - rewrite zrange_nil by lia. reflexivity.
  - rewrite zrange_cons by lia. cbn [map repeat]. f_equal; [unfold clamp; lia | apply IH; lia].
Qed.
Lemma map_clamp_high n a b : 0 < n -> n <= a \/ b <= a -> map (clamp n) (zrange a b) = zrepeat (n - 1) (b - a).
Proof.
  intros Hn H. unfold zrepeat. remember (Z.to_nat (b - a)) as k eqn:Ek. revert a Ek H.
  induction k as [|k IH]; intros a Ek H.
  - rewrite zrange_nil by lia. reflexivity.
  - rewrite zrange_cons by lia. cbn [map repeat]. f_equal; [unfold clamp; lia | apply IH; lia].
Qed.
Lemma map_clamp_mid n a b : (0 <= a /\ b <= n) \/ b <= a -> map (clamp n) (zrange a b) = zrange a b.
Proof.
  intros Ha. destruct (Z_le_gt_dec b a); [rewrite zrange_nil by lia; reflexivity|].
  rewrite <- (map_id (zrange a b)) at 2. apply map_ext_in. intros k Hk.
  apply zrange_In in Hk. unfold clamp. lia.
Qed.
Lemma zrepeat_neg x k : k <= 0 -> zrepeat x k = [].
Proof. intro H. unfold zrepeat. replace (Z.to_nat k) with O by lia. reflexivity. Qed.

Theorem fcrop_fixed_spec n a b : 0 < n -> a <= b ->
  fcrop_rows n [(a, b)] true = map (clamp n) (zrange a b).
Proof.
  intros Hn Hab. unfold fcrop_rows. rewrite fclip_spec. cbn [flat_map sum_rf sum_rl fst snd].
  rewrite !Z.add_0_r, app_nil_r.
  rewrite (zrange_app a (Z.min b (Z.max a 0)) b) by lia.
  rewrite (zrange_app (Z.min b (Z.max a 0)) (Z.max (Z.min b (Z.max a 0)) (Z.min b n)) b) by lia.
  rewrite !map_app.
  rewrite (map_clamp_low n a) by lia.
  rewrite (map_clamp_mid n) by lia.
  rewrite (map_clamp_high n) by lia.
  f_equal; [f_equal; lia|]. f_equal; [|f_equal; lia].
  unfold clip1. cbn [fst snd]. destruct ((b <? 0) || (a >=? n)) eqn:E; cbn [flat_map fst snd].
  - rewrite zrange_nil by lia. reflexivity.
  - rewrite app_nil_r. destruct (Z_le_gt_dec (Z.min b n) (Z.max a 0)).
    + rewrite !zrange_nil by lia. reflexivity.
    + f_equal; lia.
Qed.
Corollary fcrop_fixed_length n a b : 0 < n -> a <= b ->
  Z.of_nat (length (fcrop_rows n [(a, b)] true)) = b - a.
Proof. intros Hn Hab. rewrite fcrop_fixed_spec, map_length, zrange_length by assumption. lia. Qed.

(* return_data=False: the new window starts at the first kept frame *)
Theorem fcrop_window_spec w n f m rows s : fcrop_window w n f m = Some (rows, s) ->
  let r := crop_range w f m None in
  rows = zrange (Z.max (fst r) 0) (Z.min (snd r) n) /\ s = w_start w + Z.max (fst r) 0 * w_step w.
Proof.
  unfold fcrop_window. rewrite fclip_spec. cbn [flat_map]. rewrite app_nil_r. unfold clip1.
  destruct ((snd (crop_range w f m None) <? 0) || (fst (crop_range w f m None) >=? n)); [discriminate|].
  intro H. inversion H; subst. cbn [flat_map fst snd]. rewrite app_nil_r. split; reflexivity.
Qed.

(* iteration pairs row i with window position i; extent spans all frames *)
Theorem fiter_spec w n : fiter w n = map (fun i => (i, win_get w i)) (zrange 0 n).
Proof. reflexivity. Qed.
Theorem fextent_spec w n : fextent2 w n = range_to_segment2 w 0 n.
Proof. reflexivity. Qed.
