(* C09: Annotation.support(collar): for each label, exactly the segments of that label's
   timeline support taken with the same collar, one track each, and nothing else. *)
From PV Require Import Model.AnnotationOps Proofs.SegmentP Proofs.SortedP Proofs.TimelineInvP Proofs.SupportP
  Proofs.DictP Proofs.AnnotationInvP Proofs.AnnCropP Proofs.AnnCropInterP Proofs.WordsP.

Section AnnSupport.
Variable eps : Z.
Hypothesis Heps : 0 <= eps.

Definition sup_step (st : ann * nat) (sl : seg * name) : ann * nat :=
  let '(acc, i) := st in (setitem eps acc (fst sl) (NStr (word (Z.of_nat i))) (snd sl), S i).

(* every track name already in use is one of the first i words *)
Definition words_below (c : ann) (i : nat) : Prop :=
  forall s t, In t (get_tracks c s) -> exists j, (j < i)%nat /\ t = NStr (word (Z.of_nat j)).

Lemma get_tracks_setitem c s t l s' t' : In t' (get_tracks (setitem eps c s t l) s') -> t' = t \/ In t' (get_tracks c s').
Proof.
  unfold setitem, get_tracks. destruct (negb (nonempty eps s)); [now right|].
  destruct (sd_get s (a_tracks c)) as [d|] eqn:Ed; cbn [a_tracks].
  - destruct (seg_eq_dec s' s) as [->|Hn].
    + rewrite sd_get_set_same, Ed. rewrite d_set_nm. intro H. fold (keys (nm_set t l d)) in H.
      apply nm_set_keys_In in H. exact H.
    + rewrite sd_get_set_other by assumption. now right.
  - destruct (seg_eq_dec s' s) as [->|Hn].
    + rewrite sd_get_set_same, Ed. cbn. intros [<-|[]]. now left.
    + rewrite sd_get_set_other by assumption. now right.
Qed.

Lemma sup_fold recs : forall c i, AInv eps c -> words_below c i ->
  (forall sl, In sl recs -> nonempty eps (fst sl) = true) ->
  Z.of_nat (i + List.length recs) < word_bound ->
  let r := fst (fold_left sup_step recs (c, i)) in
  AInv eps r /\ Permutation (entries (a_tracks r)) (recs ++ entries (a_tracks c)) /\
  a_uri r = a_uri c /\ a_modality r = a_modality c.
Proof.
  induction recs as [|[s l] recs IH]; intros c i I Wb Hne Hb; cbn [fold_left fst app].
  - split; [exact I|]. split; [reflexivity|]. split; reflexivity.
  - cbn [sup_step fst snd]. set (t := NStr (word (Z.of_nat i))).
    assert (Hf : ~ In t (get_tracks c s)).
    { intro Hin. destruct (Wb s t Hin) as [j [Hj E]]. unfold t in E. inversion E as [E'].
      apply word_inj in E'; cbn [List.length] in Hb; lia. }
    assert (Hs : nonempty eps s = true) by (apply (Hne (s, l)); now left).
    pose proof (AInv_setitem eps c s t l I) as I'.
    destruct (IH (setitem eps c s t l) (S i) I') as [J [P [U M]]].
    + intros s' t' Hin. apply get_tracks_setitem in Hin as [->|Hin].
      * exists i. split; [lia | reflexivity].
      * destruct (Wb s' t' Hin) as [j [Hj E]]. exists j. split; [lia | exact E].
    + intros sl Hsl. apply Hne. now right.
    + cbn [List.length] in Hb. lia.
    + cbv zeta in *. split; [exact J|]. split.
      * rewrite P. rewrite (setitem_fresh_entries eps c s t l (i_wf _ _ I) Hs Hf). symmetry. apply Permutation_middle.
      * destruct (setitem_meta eps c s t l) as [U' M']. split; congruence.
Qed.

(* the records the loop writes: per label (in labels() order), the segments of
   label_timeline(label).support(collar).support() *)
Definition support_recs (a : ann) (collar : Z) : list (seg * name) :=
  flat_map (fun l => map (fun s => (s, l)) (support eps 0 (support eps collar (lab_tl eps (a_tracks a) l))))
           (snd (labels eps a)).

Lemma support_ann_unfold a collar : AInv eps a ->
  support_ann eps a collar =
  fst (fold_left sup_step (support_recs a collar) (Annotation.a_empty (a_uri a) (a_modality a), O)).
Proof.
  intro I. unfold support_ann, support_recs. pose proof (labels_spec eps a I) as HL.
  destruct (labels eps a) as [a1 L]. destruct HL as [I1 [_ [C _]]]. cbn [snd]. pose proof C as [c1 _].
  replace (flat_map (fun l => map (fun s => (s, l)) (support eps 0 (support eps collar (c_segs (snd (label_timeline eps a1 l)))))) L)
    with (flat_map (fun l => map (fun s => (s, l)) (support eps 0 (support eps collar (lab_tl eps (a_tracks a) l)))) L).
  - reflexivity.
  - apply flat_map_ext. intro l. pose proof (label_timeline_spec eps a1 l I1) as HT.
    destruct (label_timeline eps a1 l) as [a2 c]. destruct HT as [_ [_ [G _]]]. cbn [snd]. now rewrite G, c1.
Qed.

Theorem support_ann_spec a collar : AInv eps a ->
  Z.of_nat (List.length (support_recs a collar)) < word_bound ->
  let r := support_ann eps a collar in
  AInv eps r /\ Permutation (entries (a_tracks r)) (support_recs a collar) /\
  a_uri r = a_uri a /\ a_modality r = a_modality a.
Proof.
  intros I Hb. cbv zeta. rewrite (support_ann_unfold a collar I).
  destruct (sup_fold (support_recs a collar) (Annotation.a_empty (a_uri a) (a_modality a)) O) as [J [P [U M]]].
  - apply AInv_empty.
  - intros s t Hin. unfold get_tracks in Hin. cbn in Hin. destruct Hin.
  - intros [s l] Hin. cbn [fst]. unfold support_recs in Hin. apply in_flat_map in Hin as [l' [_ Hin]].
    apply in_map_iff in Hin as [s' [E Hs]]. inversion E; subst. unfold support in Hs at 1.
    apply tl_of_In in Hs. tauto.
  - cbn [Nat.add]. exact Hb.
  - cbv zeta in *. split; [exact J|]. split; [|split; [exact U | exact M]].
    rewrite P. cbn [Annotation.a_empty a_tracks entries flat_map]. now rewrite app_nil_r.
Qed.

(* consequences in the property's words: label l of the result sits exactly on the segments of
   the label's own support(collar); labels that do not occur contribute nothing *)
Corollary support_ann_label_segments a collar l s : AInv eps a ->
  Z.of_nat (List.length (support_recs a collar)) < word_bound ->
  (occ (a_tracks (support_ann eps a collar)) l s <->
   occurs (a_tracks a) l /\ In s (support eps 0 (support eps collar (lab_tl eps (a_tracks a) l)))).
Proof.
  intros I Hb. destruct (support_ann_spec a collar I Hb) as [J [P _]]. cbv zeta in *.
  rewrite (occ_entries eps _ l s (i_wf _ _ J)).
  pose proof (labels_spec eps a I) as HL. unfold support_recs in P.
  destruct (labels eps a) as [a1 L]. destruct HL as [_ [_ [_ [HinL _]]]]. cbn [snd] in P.
  split.
  - intro H. apply (Permutation_in _ P) in H. apply in_flat_map in H as [l' [Hl' H]].
    apply in_map_iff in H as [s' [E Hs]]. inversion E; subst. split; [now apply HinL | assumption].
  - intros [Ho Hs]. apply (Permutation_in _ (Permutation_sym P)). apply in_flat_map. exists l.
    split; [now apply HinL|]. apply in_map_iff. exists s. split; [reflexivity | assumption].
Qed.

(* the second, collar-less support() of the loop changes nothing *)
Lemma separated_weaken collar l : separated eps collar l -> separated eps 0 l.
Proof.
  induction l as [|x [|y r] IH]; cbn [separated]; try tauto. intros [H1 H2]. split; [|now apply IH].
  unfold th in *. lia.
Qed.
Lemma support_then_support0 collar l : wf eps l -> support eps 0 (support eps collar l) = support eps collar l.
Proof.
  intro H. rewrite (support_is_support_iter eps collar Heps l H).
  destruct (support_iter_separated eps collar Heps l H) as [Hs Hn].
  assert (Wf : wf eps (support_iter eps collar l)) by (split; [now apply (separated_ssorted eps collar) | exact Hn]).
  rewrite (support_is_support_iter eps 0 Heps _ Wf).
  apply (support_iter_fixed eps 0 Heps); [now apply (separated_weaken collar) | exact Hn].
Qed.
Corollary support_ann_label_segments' a collar l s : AInv eps a ->
  Z.of_nat (List.length (support_recs a collar)) < word_bound ->
  (occ (a_tracks (support_ann eps a collar)) l s <->
   occurs (a_tracks a) l /\ In s (support eps collar (lab_tl eps (a_tracks a) l))).
Proof.
  intros I Hb. rewrite (support_ann_label_segments a collar l s I Hb).
  rewrite support_then_support0 by apply wf_tl_of. reflexivity.
Qed.
End AnnSupport.

(* ---- consequences: the label timelines and durations of the support ---- *)
Section SupportViews.
Variable eps : Z.
Hypothesis Heps : 0 <= eps.

(* label_timeline(l) of a.support(collar) is label_timeline(l).support(collar) of a *)
Theorem support_ann_label_timeline a collar l : AInv eps a ->
  Z.of_nat (List.length (support_recs eps a collar)) < word_bound ->
  lab_tl eps (a_tracks (support_ann eps a collar)) l = support eps collar (lab_tl eps (a_tracks a) l).
Proof.
  intros I Hb. destruct (support_ann_spec eps a collar I Hb) as [J _]. cbv zeta in J. pose proof (i_wf _ _ J) as Wc.
  pose proof (i_wf _ _ I) as W.
  apply ssorted_ext; [apply tl_of_sorted | apply tl_of_sorted |].
  intro s. unfold lab_tl at 1. rewrite tl_of_In, (label_segments_In eps _ l s Wc).
  rewrite (support_ann_label_segments' eps Heps a collar l s I Hb). split.
  - tauto.
  - intro Hs. assert (Hn : nonempty eps s = true) by (unfold support in Hs; apply tl_of_In in Hs; tauto).
    split; [|exact Hn]. split; [|exact Hs].
    (* a non-empty support means the label occurs *)
    destruct (occurs_dec eps (a_tracks a) l W) as [Ho|Hno]; [exact Ho|]. exfalso.
    assert (E : label_segments (a_tracks a) l = []) by (apply (label_segments_nil eps _ l W); intros x Hx; apply Hno; now exists x).
    unfold lab_tl in Hs. rewrite E in Hs. cbn in Hs. exact Hs.
Qed.

(* with collar 0 the support changes no label's duration *)
Corollary support_ann_keeps_durations a l : AInv eps a ->
  Z.of_nat (List.length (support_recs eps a 0)) < word_bound ->
  tl_duration eps (lab_tl eps (a_tracks (support_ann eps a 0)) l) = tl_duration eps (lab_tl eps (a_tracks a) l).
Proof.
  intros I Hb. rewrite (support_ann_label_timeline a 0 l I Hb). unfold tl_duration.
  assert (Wl : wf eps (lab_tl eps (a_tracks a) l)) by apply wf_tl_of.
  rewrite <- (support_is_support_iter eps 0 Heps _ (support_wf eps 0 _ Wl)).
  rewrite (support_idempotent eps 0 Heps _ Wl). now rewrite (support_is_support_iter eps 0 Heps _ Wl).
Qed.
End SupportViews.
