(* C04: merging in two passes - first what the precision alone bridges (collar c0), then with a larger collar c - gives what
   one pass with the larger collar gives: support(c) of a support(c0) is support(c) of the timeline itself. *)
From PV Require Import Model.AnnotationOps Proofs.SegmentP Proofs.SortedP Proofs.SupportP.

Section Twice.
Variables eps c0 c : Z.
Hypothesis Heps : 0 <= eps.
Hypothesis Hth : th eps c0 <= th eps c.

Let go0 := support_go eps c0.
Let goc := support_go eps c.

Lemma ne_merged cur s : ne eps cur -> ne eps s -> ne eps (st cur, Z.max (en cur) (en s)).
Proof. unfold ne, nonempty, st, en. cbn [fst snd]. lia. Qed.

(* the outer sweep over the output of the inner sweep = the outer sweep over the inner sweep's input *)
Lemma two_phase : forall l cur acc,
  ne eps acc -> ne eps cur -> Forall (ne eps) l -> st_sorted (cur :: l) -> st acc <= st cur ->
  goc acc (go0 cur l) = goc acc (cur :: l).
Proof.
  induction l as [|s r IH]; intros cur acc Ha Hc Hl Hs Hle.
  - reflexivity.
  - inversion Hl as [|? ? Hns Hlr]; subst.
    assert (Hcs : st cur <= st s) by (destruct Hs as [H _]; exact H).
    assert (Hsr : st_sorted (s :: r)) by exact (st_sorted_tail _ _ Hs).
    unfold go0. rewrite (support_go_unfold eps c0 Heps cur s r Hc Hns Hcs). fold go0.
    unfold goc at 2. rewrite (support_go_unfold eps c Heps acc cur (s :: r) Ha Hc Hle). fold goc.
    destruct (st s - en cur <=? th eps c0) eqn:E0.
    + (* the inner sweep merges cur and s *)
      set (cur' := (st cur, Z.max (en cur) (en s))).
      assert (Hc' : ne eps cur') by (apply ne_merged; assumption).
      assert (Hs' : st_sorted (cur' :: r)).
      { destruct r as [|x r']; [exact I|]. split; [|exact (st_sorted_tail _ _ Hsr)].
        destruct Hsr as [H _]. unfold cur', st in *. cbn [fst]. lia. }
      rewrite (IH cur' acc Ha Hc' Hlr Hs' ltac:(unfold cur', st; cbn [fst]; unfold st in Hle; lia)).
      unfold goc at 1. rewrite (support_go_unfold eps c Heps acc cur' r Ha Hc' ltac:(unfold cur', st; cbn [fst]; unfold st in Hle; lia)). fold goc.
      replace (st cur') with (st cur) by reflexivity.
      destruct (st cur - en acc <=? th eps c) eqn:Ec.
      * (* acc swallows cur, then s *)
        set (acc1 := (st acc, Z.max (en acc) (en cur))).
        assert (Ha1 : ne eps acc1) by (apply ne_merged; assumption).
        unfold goc at 2. rewrite (support_go_unfold eps c Heps acc1 s r Ha1 Hns ltac:(unfold acc1, st; cbn [fst]; unfold st in *; lia)). fold goc.
        replace (st s - en acc1 <=? th eps c) with true.
        2:{ symmetry. apply Z.leb_le. apply Z.leb_le in E0. unfold acc1, en. cbn [snd]. unfold en in E0. lia. }
        f_equal. unfold acc1, cur', st, en. cbn [fst snd]. f_equal. lia.
      * (* acc is emitted; cur and s still merge under the larger collar *)
        f_equal. unfold goc. rewrite (support_go_unfold eps c Heps cur s r Hc Hns Hcs).
        replace (st s - en cur <=? th eps c) with true; [reflexivity|].
        symmetry. apply Z.leb_le. apply Z.leb_le in E0. lia.
    + (* the inner sweep emits cur and goes on from s *)
      unfold goc at 1. rewrite (support_go_unfold eps c Heps acc cur (go0 s r) Ha Hc Hle). fold goc.
      destruct (st cur - en acc <=? th eps c) eqn:Ec.
      * apply IH; try assumption; [now apply ne_merged | unfold st; cbn [fst]; unfold st in *; lia].
      * f_equal. apply IH; assumption.
Qed.

Theorem support_iter_twice l : wf eps l ->
  support_iter eps c (support_iter eps c0 l) = support_iter eps c l.
Proof.
  intros [Hsort Hne]. destruct l as [|s0 r]; [reflexivity|].
  inversion Hne as [|? ? Hn0 Hnr]; subst. fold (ne eps s0) in Hn0.
  assert (Hss : st_sorted (s0 :: r)) by now apply ssorted_st_sorted.
  assert (Hself : forall cl x rest, ne eps x -> support_go eps cl x (x :: rest) = support_go eps cl x rest).
  { intros cl x rest Hx. rewrite (support_go_unfold eps cl Heps x x rest Hx Hx (Z.le_refl _)).
    replace (st x - en x <=? th eps cl) with true.
    - f_equal. destruct x as [a b]. unfold st, en. cbn [fst snd]. f_equal. lia.
    - symmetry. apply Z.leb_le. pose proof (ne_gt eps x Hx). unfold th. lia. }
  cbn [support_iter]. rewrite (Hself c0 s0 r Hn0), (Hself c s0 r Hn0).
  assert (Hnr' : Forall (ne eps) r) by exact Hnr.
  pose proof (st_sorted_all _ _ Hss) as Hsa.
  destruct (sweep_head eps c0 Heps r s0 Hn0 Hnr' (st_sorted_tail _ _ Hss) Hsa) as [o [rest [Eo [So Eo']]]].
  destruct (sweep_separated eps c0 Heps r s0 Hn0 Hnr' (st_sorted_tail _ _ Hss) Hsa) as [_ Hno].
  rewrite Eo in Hno. inversion Hno as [|? ? Hnoo _]; subst.
  pose proof (two_phase r s0 s0 Hn0 Hn0 Hnr' Hss (Z.le_refl _)) as TP.
  unfold goc, go0 in TP. rewrite (Hself c s0 r Hn0) in TP. rewrite <- TP. rewrite Eo.
  (* go_c o (o :: rest) = go_c o rest = go_c s0 (o :: rest) *)
  cbn [support_iter].
  rewrite (Hself c o rest Hnoo).
  rewrite (support_go_unfold eps c Heps s0 o rest Hn0 Hnoo ltac:(lia)).
  replace (st o - en s0 <=? th eps c) with true.
  - f_equal. destruct o as [a b]. unfold st, en in *. cbn [fst snd] in *. f_equal; lia.
  - symmetry. apply Z.leb_le. pose proof (ne_gt eps s0 Hn0). unfold th. lia.
Qed.

Theorem support_twice l : wf eps l -> support eps c (support eps c0 l) = support eps c l.
Proof.
  intro H. rewrite (support_is_support_iter eps c Heps _ (support_wf eps c0 l H)).
  rewrite (support_is_support_iter eps c0 Heps l H), (support_is_support_iter eps c Heps l H).
  now apply support_iter_twice.
Qed.
End Twice.

(* the case the library relies on: the default support() first, then any collar >= 0 *)
Corollary support_of_default_support eps c l : 0 <= eps -> 0 <= c -> wf eps l ->
  support eps c (support eps 0 l) = support eps c l.
Proof. intros He Hc H. apply support_twice; [exact He | unfold th; lia | exact H]. Qed.
