(* Order theory for str()-keyed sorting: String.ltb is a strict total order; a stable sort of a
   duplicate-free list under a strict total order depends only on the set of elements. *)
From PV Require Import Model.Annotation.
From Coq Require Import NArith.

Lemma ascii_cmp_lt_trans a b c : Ascii.compare a b = Lt -> Ascii.compare b c = Lt -> Ascii.compare a c = Lt.
Proof. unfold Ascii.compare. rewrite !N.compare_lt_iff. apply N.lt_trans. Qed.
Lemma ascii_cmp_eq a b : Ascii.compare a b = Eq -> a = b.
Proof. apply Ascii.compare_eq_iff. Qed.
Lemma ascii_cmp_refl a : Ascii.compare a a = Eq.
Proof. unfold Ascii.compare. apply N.compare_refl. Qed.

Lemma str_cmp_lt_trans a : forall b c, String.compare a b = Lt -> String.compare b c = Lt -> String.compare a c = Lt.
Proof.
  induction a as [|x a IH]; intros [|y b] [|z c]; simpl; intros H1 H2; try discriminate; try reflexivity.
  destruct (Ascii.compare x y) eqn:Exy; try discriminate.
  - apply ascii_cmp_eq in Exy. subst y. destruct (Ascii.compare x z) eqn:Exz; try discriminate; [now apply (IH b c) | reflexivity].
  - destruct (Ascii.compare y z) eqn:Eyz; try discriminate.
    + apply ascii_cmp_eq in Eyz. subst z. now rewrite Exy.
    + now rewrite (ascii_cmp_lt_trans x y z Exy Eyz).
Qed.
Lemma str_ltb_trans a b c : String.ltb a b = true -> String.ltb b c = true -> String.ltb a c = true.
Proof.
  unfold String.ltb. destruct (String.compare a b) eqn:E1; try discriminate.
  destruct (String.compare b c) eqn:E2; try discriminate. intros _ _. now rewrite (str_cmp_lt_trans a b c E1 E2).
Qed.
Lemma str_cmp_refl a : String.compare a a = Eq.
Proof. induction a as [|x a IH]; simpl; [reflexivity|]. now rewrite ascii_cmp_refl. Qed.
Lemma str_ltb_irrefl a : String.ltb a a = false.
Proof. unfold String.ltb. now rewrite str_cmp_refl. Qed.
Lemma str_ltb_total a b : a <> b -> String.ltb a b = true \/ String.ltb b a = true.
Proof.
  intro H. unfold String.ltb. rewrite (String.compare_antisym b a). destruct (String.compare a b) eqn:E; simpl.
  - apply String.compare_eq_iff in E. contradiction.
  - now left.
  - now right.
Qed.
Lemma str_ltb_asym a b : String.ltb a b = true -> String.ltb b a = false.
Proof.
  intro H. destruct (String.ltb b a) eqn:E; [|reflexivity].
  pose proof (str_ltb_trans a b a H E). rewrite str_ltb_irrefl in H0. discriminate.
Qed.

(* ---- sorting under a strict total order ---- *)
Section Sort.
Context {A : Type} (lt : A -> A -> bool).
Hypothesis lt_trans : forall a b c, lt a b = true -> lt b c = true -> lt a c = true.
Hypothesis lt_irrefl : forall a, lt a a = false.

Definition sorted_lt (l : list A) : Prop := StronglySorted (fun a b => lt a b = true) l.

(* a leb that agrees with lt on distinct elements of interest *)
Variable leb : A -> A -> bool.

Lemma ins_sorted x l :
  (forall y, In y l -> leb y x = lt y x /\ (lt y x = false -> lt x y = true)) ->
  sorted_lt l -> sorted_lt (ins_stable leb x l).
Proof.
  induction l as [|y l IH]; intros Hx Hs; simpl; [repeat constructor|].
  inversion Hs as [|? ? Hs' F]; subst. destruct (Hx y (or_introl eq_refl)) as [E T]. rewrite E.
  destruct (lt y x) eqn:L.
  - constructor; [apply IH; [intros z Hz; apply Hx; now right | assumption]|].
    rewrite Forall_forall in *. intros z Hz.
    assert (Pz : In z (x :: l)) by (eapply Permutation_in; [|exact Hz];
       clear; induction l as [|a l IH]; simpl; [reflexivity|]; destruct (leb a x); [rewrite IH; apply perm_swap | reflexivity]).
    destruct Pz as [<-|Pz]; [exact L | now apply F].
  - constructor; [assumption|]. constructor; [now apply T|]. rewrite Forall_forall in *. intros z Hz.
    eapply lt_trans; [apply T; reflexivity | now apply F].
Qed.

Lemma sorted_lt_ext l1 : forall l2, sorted_lt l1 -> sorted_lt l2 -> (forall x, In x l1 <-> In x l2) -> l1 = l2.
Proof.
  induction l1 as [|x l1 IH]; intros [|y l2] H1 H2 E.
  - reflexivity.
  - exfalso. apply (proj2 (E y)). now left.
  - exfalso. apply (proj1 (E x)). now left.
  - inversion H1 as [|? ? S1 F1]; subst. inversion H2 as [|? ? S2 F2]; subst. rewrite Forall_forall in F1, F2.
    assert (x = y) as ->.
    { destruct (proj1 (E x) (or_introl eq_refl)) as [->|Ix]; [reflexivity|].
      destruct (proj2 (E y) (or_introl eq_refl)) as [->|Iy]; [reflexivity|].
      pose proof (lt_trans _ _ _ (F1 _ Iy) (F2 _ Ix)) as C. rewrite lt_irrefl in C. discriminate. }
    f_equal. apply IH; try assumption. intro z. split; intro I.
    + destruct (proj1 (E z) (or_intror I)) as [->|]; [|assumption]. specialize (F1 _ I). rewrite lt_irrefl in F1. discriminate.
    + destruct (proj2 (E z) (or_intror I)) as [->|]; [|assumption]. specialize (F2 _ I). rewrite lt_irrefl in F2. discriminate.
Qed.
End Sort.
