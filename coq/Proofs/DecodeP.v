(* C17: one_hot_decoding as a whole. The runs of active frames of a 0/1 column whose active
   frames are exactly those covered by a list of separated, non-empty ranges inside [f, n) are
   those ranges, in order; applied to the columns discretize builds, the decoded runs are the
   merged centre-mode ranges of the label's support, clipped to the frame count. *)
From PV Require Import Model.Discretize Proofs.SupportP Proofs.WindowP Proofs.FeatureP Proofs.RangesP
  Proofs.AnnotationInvP Proofs.DiscretizeP.

Lemma sep_later r rs : sep (r :: rs) -> Forall (fun x => fst x < snd x) (r :: rs) -> Forall (fun x => snd r < fst x) rs.
Proof.
  revert r. induction rs as [|x rs IH]; intros r S N; [constructor|].
  destruct S as [S1 S2]. inversion N as [|? ? Nr N']; subst. inversion N' as [|? ? Nx _]; subst.
  constructor; [exact S1|]. specialize (IH x S2 N'). rewrite Forall_forall in *. intros y Hy. specialize (IH y Hy). lia.
Qed.
Lemma sep_tail r rs : sep (r :: rs) -> sep rs.
Proof. destruct rs; [intros; exact I | intros [_ H]; exact H]. Qed.


Section Runs.
Variable c : Z -> Z.        (* the column, as a function of the frame index *)
Variable n : Z.

Lemma runs_nil f onset : runs [] f onset = match onset with Some t0 => [(t0, f)] | None => [] end.
Proof. reflexivity. Qed.
Lemma col_cons f : f < n -> map c (zrange f n) = c f :: map c (zrange (f + 1) n).
Proof. intro H. now rewrite (zrange_cons f n H). Qed.
Lemma col_end f : n <= f -> map c (zrange f n) = [].
Proof. intro H. now rewrite (zrange_nil f n H). Qed.

Lemma runs_gap g : forall f, f <= g <= n -> (forall k, f <= k < g -> c k = 0) ->
  runs (map c (zrange f n)) f None = runs (map c (zrange g n)) g None.
Proof.
  intros f H. remember (Z.to_nat (g - f)) as m eqn:Em. revert f Em H.
  induction m as [|m IH]; intros f Em H Hc.
  - assert (f = g) by lia. now subst.
  - rewrite (col_cons f) by lia. cbn [runs]. rewrite (Hc f) by lia. cbn. apply IH; [lia | lia|]. intros k Hk. apply Hc. lia.
Qed.
Lemma runs_active g a : forall f, f <= g <= n -> (forall k, f <= k < g -> c k = 1) ->
  runs (map c (zrange f n)) f (Some a) = runs (map c (zrange g n)) g (Some a).
Proof.
  intros f H. remember (Z.to_nat (g - f)) as m eqn:Em. revert f Em H.
  induction m as [|m IH]; intros f Em H Hc.
  - assert (f = g) by lia. now subst.
  - rewrite (col_cons f) by lia. cbn [runs]. rewrite (Hc f) by lia. cbn. apply IH; [lia | lia|]. intros k Hk. apply Hc. lia.
Qed.

Definition ok_ranges (f : Z) (rs : list rng) : Prop :=
  Forall (fun r => f <= fst r /\ fst r < snd r <= n) rs.
Theorem runs_of_separated_ranges : forall rs f, f <= n -> sep rs -> ok_ranges f rs ->
  (forall k, f <= k < n -> (c k = 1 <-> cov rs k) /\ (c k = 0 \/ c k = 1)) ->
  runs (map c (zrange f n)) f None = rs.
Proof.
  induction rs as [|r rs IH]; intros f Hf S Ok Hc.
  - rewrite (runs_gap n f) by (first [lia | intros k Hk; destruct (Hc k Hk) as [A [B|B]]; [exact B | exfalso; apply A in B; now apply (cov_nil k)]]).
    now rewrite col_end by lia.
  - inversion Ok as [|? ? [Ha [Hab Hb]] Ok']; subst. set (a := fst r) in *. set (b := snd r) in *.
    assert (Ne : Forall (fun x : rng => fst x < snd x) (r :: rs)).
    { constructor; [exact Hab|]. eapply Forall_impl; [|exact Ok']. intros x [_ [H _]]. exact H. }
    pose proof (sep_later r rs S Ne) as Later. rewrite Forall_forall in Later.
    assert (NotCov : forall k, k < a \/ (b <= k /\ ~ cov rs k) -> ~ cov (r :: rs) k).
    { intros k Hk [x [[<-|Hx] Hin]]; unfold in_r in Hin; fold a b in Hin.
      - destruct Hk as [Hk|[Hk _]]; lia.
      - destruct Hk as [Hk|[_ Hk]]; [specialize (Later x Hx); fold b in Later; lia | apply Hk; exists x; split; [exact Hx | exact Hin]]. }
    (* the inactive stretch before a *)
    rewrite (runs_gap a f) by (first [lia | intros k Hk; destruct (Hc k ltac:(lia)) as [A [B|B]]; [exact B | exfalso; apply A in B; apply (NotCov k); [lia | exact B]]]).
    (* frame a starts the run *)
    assert (Ca : c a = 1) by (apply (Hc a ltac:(lia)); exists r; split; [now left | unfold in_r; fold a b; lia]).
    rewrite (col_cons a) by lia. cbn [runs]. rewrite Ca. cbn.
    (* active up to b *)
    rewrite (runs_active b a (a + 1)) by (first [lia | intros k Hk; apply (Hc k ltac:(lia)); exists r; split; [now left | unfold in_r; fold a b; lia]]).
    destruct (Z.eq_dec b n) as [En|Nn].
    + (* the run ends with the data *)
      rewrite col_end by lia. cbn [runs].
      destruct rs as [|x rs']; [subst b; destruct r; cbn in *; subst; reflexivity|].
      exfalso. inversion Ok' as [|? ? [_ [H1 H2]] _]; subst. specialize (Later x (or_introl eq_refl)). fold b in Later. lia.
    + (* frame b is inactive: the run is closed, the rest follows by induction *)
      assert (Cb : c b = 0).
      { destruct (Hc b ltac:(lia)) as [A [B|B]]; [exact B|]. exfalso. apply A in B. apply (NotCov b); [|exact B].
        right. split; [lia|]. intros [x [Hx Hin]]. specialize (Later x Hx). unfold in_r in Hin. fold b in Later. lia. }
      rewrite (col_cons b) by lia. cbn [runs]. rewrite Cb. cbn.
      replace (a, b) with r by (destruct r; reflexivity). f_equal.
      apply IH; [lia | now apply (sep_tail r) | |].
      * unfold ok_ranges. rewrite Forall_forall in Ok' |- *. intros x Hx. destruct (Ok' x Hx) as [_ H]. specialize (Later x Hx). fold b in Later. split; [lia | exact H].
      * intros k Hk. destruct (Hc k ltac:(lia)) as [A B]. split; [|exact B]. rewrite A. rewrite (cov_cons r rs k).
        unfold in_r. fold a b. split; [intros [H|H]; [lia | exact H] | now right].
Qed.
End Runs.

(* ---- clipping the merged ranges to the frame count ---- *)
Definition clip1r (n : Z) (r : rng) : rng := (Z.max 0 (fst r), Z.min n (snd r)).
Definition clipn (n : Z) (rs : list rng) : list rng := filter (fun r => fst r <? snd r) (map (clip1r n) rs).
Definition apart (a b : rng) : Prop := snd a < fst b.

Lemma cov_clipn n rs k : 0 <= k < n -> (cov (clipn n rs) k <-> cov rs k).
Proof.
  intro Hk. unfold clipn, cov. split.
  - intros [r [Hr Hin]]. apply filter_In in Hr as [Hr _]. apply in_map_iff in Hr as [r0 [<- Hr0]].
    exists r0. split; [exact Hr0|]. unfold in_r, clip1r in *. cbn [fst snd] in Hin. lia.
  - intros [r [Hr Hin]]. exists (clip1r n r). unfold in_r, clip1r in *. cbn [fst snd]. split; [|lia].
    apply filter_In. split; [apply in_map_iff; exists r; tauto | cbn [fst snd]; lia].
Qed.
Lemma pairwise_of_sep rs : sep rs -> Forall (fun r => fst r < snd r) rs -> StronglySorted apart rs.
Proof.
  induction rs as [|r rs IH]; intros S N; [constructor|].
  constructor; [apply IH; [now apply (sep_tail r) | now inversion N]|]. apply (sep_later r rs S N).
Qed.
Lemma sep_of_pairwise rs : StronglySorted apart rs -> sep rs.
Proof.
  induction 1 as [|a l S IH F]; [exact I|]. destruct l as [|b l']; [exact I|]. cbn [sep]. split; [|exact IH].
  inversion F; subst. assumption.
Qed.
Lemma clipn_pairwise n rs : StronglySorted apart rs -> StronglySorted apart (clipn n rs).
Proof.
  unfold clipn. induction 1 as [|a l S IH F]; cbn [map filter]; [constructor|].
  destruct (fst (clip1r n a) <? snd (clip1r n a)) eqn:E; [|exact IH]. constructor; [exact IH|].
  rewrite Forall_forall in *. intros x Hx. apply filter_In in Hx as [Hx Hne]. apply in_map_iff in Hx as [x0 [<- Hx0]].
  specialize (F x0 Hx0). unfold apart, clip1r in *. cbn [fst snd] in *. lia.
Qed.
Lemma clipn_ok n rs : ok_ranges n 0 (clipn n rs).
Proof.
  unfold ok_ranges, clipn. rewrite Forall_forall. intros r Hr. apply filter_In in Hr as [Hr Hne].
  apply in_map_iff in Hr as [r0 [<- _]]. unfold clip1r in *. cbn [fst snd] in *. lia.
Qed.

(* merged ranges of non-empty, monotone ranges are non-empty *)
Lemma merge_nonempty rest : forall pre l, mono (l :: rest) ->
  Forall (fun r => fst r < snd r) (pre ++ [l]) -> Forall (fun r => fst r < snd r) rest ->
  Forall (fun r => fst r < snd r) (merge_ranges (pre ++ [l]) rest).
Proof.
  induction rest as [|r rest IH]; intros pre l M Np Nr; [exact Np|].
  rewrite merge_step. destruct M as [M1 [M2 M3]]. inversion Nr as [|? ? Hr Nr']; subst.
  destruct (fst r >? snd l).
  - apply IH; [exact M3 | apply Forall_app; split; [exact Np | constructor; [exact Hr | constructor]] | exact Nr'].
  - apply IH; [| |exact Nr'].
    + destruct rest as [|r2 rest']; [exact I|]. destruct M3 as [A [B C]]. cbn [mono fst snd]. repeat split; try lia. exact C.
    + apply Forall_app in Np as [Np1 Np2]. apply Forall_app. split; [exact Np1|]. constructor; [|constructor]. cbn [fst snd]. lia.
Qed.

Section Column.
Variable eps : Z.
Hypothesis Heps : 0 <= eps.

Lemma centre_ranges_nonempty w l : 0 < w_step w -> wf eps l ->
  Forall (fun r : rng => fst r < snd r) (map (fun s => crop_range w s ACenter None) (support eps 0 l)).
Proof.
  intros Hs Hw. rewrite Forall_forall. intros r Hr. apply in_map_iff in Hr as [s [<- Hs']].
  assert (Hn : nonempty eps s = true) by (unfold support in Hs'; apply tl_of_In in Hs'; tauto).
  cbn [crop_range fst snd]. unfold closest_frame. unfold nonempty in Hn.
  assert (rhe (2 * (st s - w_start w) - w_dur w) (2 * w_step w) <= rhe (2 * (en s - w_start w) - w_dur w) (2 * w_step w)) by (apply rhe_mono; lia).
  lia.
Qed.

(* the decoded runs of a label column of discretize: the merged centre-mode ranges of the label's
   support, clipped to the frame count, in order *)
Theorem decode_column c1 w n l : AInv eps c1 -> 0 < w_step w -> 0 <= n ->
  runs (map (dval eps c1 w n l) (zrange 0 n)) 0 None =
  clipn n (crop_ranges_tl eps w (lab_tl eps (a_tracks c1) l) ACenter).
Proof.
  intros I Hs Hn. set (L := lab_tl eps (a_tracks c1) l). assert (WL : wf eps L) by apply wf_tl_of.
  destruct (crop_ranges_tl_spec eps w L ACenter Heps Hs WL) as [Cov Sep].
  assert (Ne : Forall (fun r : rng => fst r < snd r) (crop_ranges_tl eps w L ACenter)).
  { unfold crop_ranges_tl. pose proof (centre_ranges_nonempty w L Hs WL) as N0.
    pose proof (mono_map_crop w ACenter _ Hs (support_both_incr eps L Heps WL)) as M0.
    destruct (map (fun s => crop_range w s ACenter None) (support eps 0 L)) as [|r0 rest]; [constructor|].
    change (merge_ranges [] (r0 :: rest)) with (merge_ranges ([] ++ [r0]) rest).
    inversion N0; subst. apply merge_nonempty; [exact M0 | constructor; [assumption | constructor] | assumption]. }
  apply runs_of_separated_ranges; [lia | | apply clipn_ok |].
  - apply sep_of_pairwise, clipn_pairwise, pairwise_of_sep; assumption.
  - intros k Hk. destruct (dval_spec eps Heps c1 w n l k I Hs Hk) as [A B]. split; [|exact B].
    rewrite A, (cov_clipn n _ k Hk). fold L. symmetry. apply Cov.
Qed.
End Column.
