(* C09: chart, argmax, label durations. *)
From PV Require Import Model.AnnotationOps Proofs.SegmentP Proofs.SortedP Proofs.SupportP Proofs.MeasureP
  Proofs.DictP Proofs.AnnotationInvP.
From Coq Require Import QArith.
Local Close Scope Q_scope.
Local Open Scope Z_scope.

(* ---- stable sort by decreasing duration ---- *)
Definition dur_leb (x y : name * Z) : bool := snd y <=? snd x.
Definition nonincr (l : list (name * Z)) : Prop := StronglySorted (fun x y => snd y <= snd x) l.
Lemma ins_nonincr x l : nonincr l -> nonincr (ins_stable dur_leb x l).
Proof.
  induction l as [|y l IH]; intro H; simpl; [repeat constructor|].
  inversion H as [|? ? Hs F]; subst. unfold dur_leb at 1. destruct (snd x <=? snd y) eqn:E.
  - constructor; [now apply IH|]. rewrite Forall_forall in *. intros z Hz.
    apply (Permutation_in _ (ins_stable_perm dur_leb x l)) in Hz as [<-|Hz]; [lia | now apply F].
  - constructor; [assumption|]. constructor; [lia|]. rewrite Forall_forall in *. intros z Hz. specialize (F z Hz). lia.
Qed.
Lemma sort_nonincr l : nonincr (sort_stable dur_leb l).
Proof.
  unfold sort_stable. enough (H : forall acc, nonincr acc -> nonincr (fold_left (fun acc x => ins_stable dur_leb x acc) l acc))
    by (apply H; constructor).
  induction l as [|x l IH]; intros acc Ha; simpl; [exact Ha|]. apply IH. now apply ins_nonincr.
Qed.

Section Analyze.
Variable eps : Z.

(* chart(): every label once, with its from-scratch duration, in non-increasing duration order *)
Theorem chart_spec a : AInv eps a ->
  let ch := snd (chart eps a) in
  nonincr ch /\ NoDup (map fst ch) /\
  (forall l, In l (map fst ch) <-> occurs (a_tracks a) l) /\
  (forall l d, In (l, d) ch -> d = tl_duration eps (lab_tl eps (a_tracks a) l)).
Proof.
  intro I. unfold chart. pose proof (labels_spec eps a I) as HL. destruct (labels eps a) as [a1 L].
  destruct HL as [I1 [_ [C [Hin Nd]]]]. pose proof C as [c1 _]. cbn [snd].
  remember (map (fun l => (l, snd (label_duration eps a1 l))) L) as durs eqn:Ed.
  assert (P : Permutation (sort_stable (fun x y : name * Z => snd y <=? snd x) durs) durs) by apply sort_stable_perm.
  assert (Ef : map fst durs = L) by (rewrite Ed, map_map; apply map_id).
  split; [apply sort_nonincr|]. split; [|split].
  - eapply Permutation_NoDup; [symmetry; apply Permutation_map; exact P|]. now rewrite Ef.
  - intro l. rewrite <- Hin, <- Ef. split; apply Permutation_in; [apply Permutation_map; exact P | symmetry; apply Permutation_map; exact P].
  - intros l d Hd. apply (Permutation_in _ P) in Hd. rewrite Ed in Hd. apply in_map_iff in Hd as [l' [E _]].
    inversion E; subst. unfold label_duration. pose proof (label_timeline_spec eps a1 l I1) as HT.
    destruct (label_timeline eps a1 l) as [a2 c]. destruct HT as [_ [_ [G _]]]. cbn [snd]. now rewrite G, c1.
Qed.

(* chart(percent=True): the labels of chart() in the same order, each with its duration over the sum of all label
   durations (labels that overlap in time each count in full), and the shares add up to one *)
Lemma qsum_same_den (P : positive) ds :
  (fold_right Qplus 0%Q (map (fun d => d # P) ds) == fold_right Z.add 0%Z ds # P)%Q.
Proof.
  induction ds as [|d ds IH]; cbn [map fold_right]; [reflexivity|]. rewrite IH. unfold Qeq, Qplus. cbn [Qnum Qden].
  rewrite Pos2Z.inj_mul. ring.
Qed.
Theorem chart_percent_spec a : AInv eps a ->
  let ch := snd (chart eps a) in
  let pc := snd (chart_percent eps a) in
  let total := fold_right Z.add 0 (map snd ch) in
  map fst pc = map fst ch /\ map (fun p => fst (snd p)) pc = map snd ch /\
  (forall l d T, In (l, (d, T)) pc -> T = total /\ d = tl_duration eps (lab_tl eps (a_tracks a) l)) /\
  (0 < total -> (fold_right Qplus 0%Q (map (fun p => fst (snd p) # Z.to_pos (snd (snd p))) pc) == 1%Q)%Q).
Proof.
  intro I. pose proof (chart_spec a I) as [_ [_ [_ Hd]]]. unfold chart_percent. destruct (chart eps a) as [a1 ch].
  cbn [snd] in *. split; [|split; [|split]].
  - rewrite map_map. apply map_ext. now intros [l d].
  - rewrite map_map. apply map_ext. now intros [l d].
  - intros l d T Hin. apply in_map_iff in Hin as [[l' d'] [E Hin]]. cbn [fst snd] in E. inversion E; subst. split; [reflexivity|].
    now apply Hd.
  - intro Hpos. rewrite map_map. cbn [fst snd].
    rewrite <- (map_map snd (fun d => Qmake d (Z.to_pos (fold_right Z.add 0 (map snd ch))))). rewrite qsum_same_den.
    unfold Qeq. cbn [Qnum Qden]. rewrite Z2Pos.id by exact Hpos. ring.
Qed.

(* label_duration = number of unit cells covered by the label's segments (eps = 0) *)
End Analyze.
Theorem label_duration_is_measure a l lo n : AInv 0 a ->
  (forall s, In s (lab_tl 0 (a_tracks a) l) -> lo <= st s /\ en s <= lo + Z.of_nat n) ->
  snd (label_duration 0 a l) = measure lo n (lab_tl 0 (a_tracks a) l).
Proof.
  intros I Hw. unfold label_duration. pose proof (label_timeline_spec 0 a l I) as HT.
  destruct (label_timeline 0 a l) as [a1 c]. destruct HT as [_ [_ [G _]]]. cbn [snd]. rewrite G.
  apply duration_is_measure; [apply wf_tl_of | exact Hw].
Qed.

(* ---- argmax: first label of maximal duration ---- *)
Lemma argmax_fold (f : name -> Z) labs : forall best,
  let r := fold_left (fun best l => match best with
                                    | Some (_, db) => if f l >? db then Some (l, f l) else best
                                    | None => Some (l, f l) end) labs best in
  match best, labs with None, [] => r = None | _, _ =>
    exists l d, r = Some (l, d) /\
      (forall l', In l' labs -> f l' <= d) /\
      match best with Some (lb, db) => db <= d /\ ((l, d) = (lb, db) \/ (In l labs /\ d = f l)) | None => In l labs /\ d = f l end
  end.
Proof.
  induction labs as [|x labs IH]; intro best; cbn [fold_left].
  - destruct best as [[lb db]|]; [|reflexivity]. exists lb, db. repeat split; try lia; [intros l' []|now left].
  - destruct best as [[lb db]|].
    + destruct (f x >? db) eqn:E.
      * specialize (IH (Some (x, f x))). cbv zeta in IH. destruct IH as [l [d [Er [Hmax [Hd Ho]]]]].
        exists l, d. split; [exact Er|]. split; [intros l' [<-|I]; [lia | now apply Hmax]|]. split; [lia|].
        right. destruct Ho as [Ho|[Ho1 Ho2]]; [inversion Ho; subst; split; [now left | reflexivity] | split; [now right | assumption]].
      * specialize (IH (Some (lb, db))). cbv zeta in IH. destruct IH as [l [d [Er [Hmax [Hd Ho]]]]].
        exists l, d. split; [exact Er|]. split; [intros l' [<-|I]; [lia | now apply Hmax]|]. split; [lia|].
        destruct Ho as [Ho|[Ho1 Ho2]]; [now left | right; split; [now right | assumption]].
    + specialize (IH (Some (x, f x))). cbv zeta in IH. destruct IH as [l [d [Er [Hmax [Hd Ho]]]]].
      exists l, d. split; [exact Er|]. split; [intros l' [<-|I]; [lia | now apply Hmax]|].
      destruct Ho as [Ho|[Ho1 Ho2]]; [inversion Ho; subst; split; [now left | reflexivity] | split; [now right | assumption]].
Qed.

Theorem argmax_spec eps a : AInv eps a ->
  match argmax_ann eps a None with
  | None => a_bool a = false \/ snd (labels eps a) = []
  | Some l => In l (snd (labels eps a)) /\
              forall l', In l' (snd (labels eps a)) ->
                snd (label_duration eps (fst (labels eps a)) l') <= snd (label_duration eps (fst (labels eps a)) l)
  end.
Proof.
  intro I. unfold argmax_ann. destruct (a_bool a) eqn:Eb; cbn [negb]; [|now left].
  destruct (labels eps a) as [a1 L] eqn:EL. cbn [fst snd].
  pose proof (argmax_fold (fun l => snd (label_duration eps a1 l)) L None) as H. cbv zeta in H.
  destruct L as [|x L']; [cbn; now right|].
  destruct H as [l [d [Er [Hmax [Hin Hd]]]]]. rewrite Er. cbn [option_map fst]. split; [exact Hin|].
  intros l' Hl'. rewrite <- Hd. now apply Hmax.
Qed.
