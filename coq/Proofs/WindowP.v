(* C14 / C15: sliding-window arithmetic. *)
From PV Require Import Model.Window Proofs.SegmentP.

(* ---- rounding primitives ---- *)
Lemma fdiv_spec n d : 0 < d -> d * fdiv n d <= n < d * fdiv n d + d.
Proof.
  intro H. unfold fdiv. pose proof (Z.div_mod n d ltac:(lia)). pose proof (Z.mod_pos_bound n d H). lia.
Qed.
Lemma cdiv_spec n d : 0 < d -> d * cdiv n d - d < n <= d * cdiv n d.
Proof.
  intro H. unfold cdiv. pose proof (Z.div_mod (- n) d ltac:(lia)). pose proof (Z.mod_pos_bound (- n) d H). lia.
Qed.
(* floor / ceiling as "largest / smallest integer such that" *)
Lemma fdiv_iff n d j : 0 < d -> (j <= fdiv n d <-> d * j <= n).
Proof. intro H. pose proof (fdiv_spec n d H). split; intro; nia. Qed.
Lemma cdiv_iff n d i : 0 < d -> (cdiv n d <= i <-> n <= d * i).
Proof. intro H. pose proof (cdiv_spec n d H). split; intro; nia. Qed.

Lemma rhe_spec n d : 0 < d -> 2 * Z.abs (rhe n d * d - n) <= d.
Proof.
  intro H. unfold rhe. pose proof (Z.div_mod n d ltac:(lia)). pose proof (Z.mod_pos_bound n d H).
  destruct (2 * (n mod d) <? d) eqn:E1; [nia|].
  destruct (2 * (n mod d) >? d) eqn:E2; [nia|].
  destruct (Z.even (n / d)); nia.
Qed.
Lemma rhe_exact k d : 0 < d -> rhe (k * d) d = k.
Proof.
  intro H. unfold rhe. rewrite Z.div_mul, Z.mod_mul by lia.
  replace (2 * 0 <? d) with true by lia. reflexivity.
Qed.
Lemma rhe_nearest n d i : 0 < d -> Z.abs (rhe n d * d - n) <= Z.abs (i * d - n).
Proof.
  intro H. pose proof (rhe_spec n d H).
  destruct (Z.eq_dec i (rhe n d)) as [->|Hne]; [lia|].
  assert (d <= Z.abs (i * d - rhe n d * d)) by nia. lia.
Qed.

Section Win.
Variable eps : Z.
Hypothesis Heps : 0 <= eps.
Variable w : win.
Hypothesis Hdur : eps < w_dur w.
Hypothesis Hstep : 0 < w_step w.

Definition pos_seg (i : Z) : seg := (w_start w + i * w_step w, w_start w + i * w_step w + w_dur w).

(* ---- C14: positions ---- *)
Theorem getitem_spec i :
  win_get w i = match w_end w with
                | Some e => if w_start w + i * w_step w <? e then Some (pos_seg i) else None
                | None => Some (pos_seg i)
                end.
Proof.
  unfold win_get, pos_seg. destruct (w_end w) as [e|]; [|reflexivity].
  destruct (w_start w + i * w_step w >=? e) eqn:E1; destruct (w_start w + i * w_step w <? e) eqn:E2; try reflexivity; lia.
Qed.
Lemma pos_nonempty i : nonempty eps (pos_seg i) = true.
Proof. unfold nonempty, pos_seg, st, en; simpl. lia. Qed.

(* number of positions that begin before `end` *)
Lemma count_spec e : w_end w = Some e -> forall i, 0 <= i ->
  (i < win_count w <-> w_start w + i * w_step w < e).
Proof.
  intros He i Hi. unfold win_count. rewrite He.
  pose proof (cdiv_spec (e - w_start w) (w_step w) Hstep). split; intro; nia.
Qed.
Lemma alive_spec e i : w_end w = Some e -> 0 <= i -> win_alive eps w i = (i <? win_count w).
Proof.
  intros He Hi. unfold win_alive. rewrite getitem_spec, He.
  pose proof (count_spec e He i Hi).
  destruct (w_start w + i * w_step w <? e) eqn:E; [rewrite pos_nonempty|]; lia.
Qed.

Lemma iter_from_spec e : w_end w = Some e -> forall fuel i, 0 <= i ->
  (Z.to_nat (win_count w - i) < fuel)%nat ->
  win_iter_from eps w fuel i = map pos_seg (zrange i (win_count w)).
Proof.
  intros He fuel. induction fuel as [|f IH]; intros i Hi Hf; [lia|].
  cbn [win_iter_from]. rewrite getitem_spec, He. pose proof (count_spec e He i Hi).
  destruct (w_start w + i * w_step w <? e) eqn:E.
  - rewrite pos_nonempty. rewrite IH by lia.
    unfold zrange. replace (Z.to_nat (win_count w - i)) with (S (Z.to_nat (win_count w - (i + 1)))) by lia.
    cbn [seq map]. f_equal; [f_equal; lia|]. rewrite <- seq_shift, !map_map. apply map_ext. intro k. f_equal. lia.
  - unfold zrange. replace (Z.to_nat (win_count w - i)) with O by lia. reflexivity.
Qed.
(* iterating yields positions 0,1,2,... exactly while they begin before `end`; the model's
   iterator restarts from 0 each time (the implementation resets its index in __iter__) *)
Theorem iter_spec e : w_end w = Some e -> win_iter eps w = map pos_seg (zrange 0 (win_count w)).
Proof.
  intro He. unfold win_iter. apply (iter_from_spec e He); [lia|].
  assert (0 <= win_count w) by (unfold win_count; rewrite He; lia). lia.
Qed.
Corollary iter_length e : w_end w = Some e -> Z.of_nat (length (win_iter eps w)) = win_count w.
Proof.
  intro He. rewrite (iter_spec e He), map_length. unfold zrange. rewrite map_length, seq_length.
  assert (0 <= win_count w) by (unfold win_count; rewrite He; lia). lia.
Qed.

(* len() equals that count, wherever closest_frame(end) lands (even on a negative index) *)
Lemma count_spec' e : w_end w = Some e -> w_start w < e -> forall i,
  (i < win_count w <-> w_start w + i * w_step w < e).
Proof.
  intros He Hse i. unfold win_count. rewrite He.
  pose proof (cdiv_spec (e - w_start w) (w_step w) Hstep). split; intro; nia.
Qed.
Lemma alive_spec' e i : w_end w = Some e -> w_start w < e -> win_alive eps w i = (i <? win_count w).
Proof.
  intros He Hse. unfold win_alive. rewrite getitem_spec, He.
  pose proof (count_spec' e He Hse i).
  destruct (w_start w + i * w_step w <? e) eqn:E; [rewrite pos_nonempty|]; lia.
Qed.
Lemma len_walk_spec e : w_end w = Some e -> w_start w < e -> forall fuel i,
  i <= win_count w -> (Z.to_nat (win_count w - i) < fuel)%nat ->
  len_walk eps w fuel i = win_count w.
Proof.
  intros He Hse fuel. induction fuel as [|f IH]; intros i Hle Hf; [lia|].
  cbn [len_walk]. rewrite (alive_spec' e i He Hse).
  destruct (i <? win_count w) eqn:E; [apply IH; lia | lia].
Qed.
Lemma closest_le_count e : w_end w = Some e -> closest_frame w e <= win_count w.
Proof.
  intro He. unfold closest_frame, win_count. rewrite He.
  pose proof (rhe_spec (2 * (e - w_start w) - w_dur w) (2 * w_step w) ltac:(lia)).
  pose proof (cdiv_spec (e - w_start w) (w_step w) Hstep). nia.
Qed.
Theorem len_spec e : w_end w = Some e -> w_start w < e -> win_len eps w = Some (win_count w).
Proof.
  intros He Hse. unfold win_len. rewrite He. f_equal.
  apply (len_walk_spec e He Hse); [now apply closest_le_count | lia].
Qed.
Theorem len_infinite : w_end w = None -> win_len eps w = None.
Proof. intro H. unfold win_len. now rewrite H. Qed.

(* ---- C14: nearest frame ---- *)
(* closest_frame(t) is an index whose window centre is nearest to t (doubled coordinates) *)
Theorem closest_frame_nearest t i :
  Z.abs (centre2 w (closest_frame w t) - 2 * t) <= Z.abs (centre2 w i - 2 * t).
Proof.
  unfold centre2, closest_frame.
  pose proof (rhe_nearest (2 * (t - w_start w) - w_dur w) (2 * w_step w) i ltac:(lia)). lia.
Qed.
(* ... so it inverts the centre of every position (when the centre falls on a tick) *)
Theorem closest_frame_of_centre i h : w_dur w = 2 * h ->
  closest_frame w (w_start w + i * w_step w + h) = i.
Proof.
  intro Hd. unfold closest_frame.
  replace (2 * (w_start w + i * w_step w + h - w_start w) - w_dur w) with (i * (2 * w_step w)) by lia.
  apply rhe_exact. lia.
Qed.

(* ---- C14: frame ranges tile the time line (doubled coordinates) ---- *)
Theorem ranges_abut i n m : i + n <> 0 ->
  en (range_to_segment2 w i n) = st (range_to_segment2 w (i + n) m).
Proof.
  intro H. unfold range_to_segment2, st, en; cbn [fst snd]. replace (i + n =? 0) with false by lia. lia.
Qed.
Theorem range_length i n : i <> 0 ->
  en (range_to_segment2 w i n) - st (range_to_segment2 w i n) = 2 * (n * w_step w).
Proof. intro H. unfold range_to_segment2, st, en; cbn [fst snd]. replace (i =? 0) with false by lia. lia. Qed.
Theorem range_centred i n : i <> 0 ->
  st (range_to_segment2 w i n) = centre2 w i - w_step w /\
  en (range_to_segment2 w i n) = centre2 w (i + n - 1) + w_step w.
Proof. intro H. unfold range_to_segment2, centre2, st, en; cbn [fst snd]. replace (i =? 0) with false by lia. lia. Qed.
Theorem range_first_extended n :
  st (range_to_segment2 w 0 n) = 2 * w_start w /\
  en (range_to_segment2 w 0 n) = centre2 w (n - 1) + w_step w.
Proof. unfold range_to_segment2, centre2, st, en; cbn [fst snd]. replace (0 =? 0) with true by lia. lia. Qed.

(* ---- C15: crop with a Segment focus ---- *)
Variable f : seg.
(* 'loose': exactly the frames whose window [a_i, a_i + dur] touches the focus (closed intervals) *)
Theorem crop_loose_spec i :
  (fst (crop_range w f ALoose None) <= i < snd (crop_range w f ALoose None)) <->
  (st (pos_seg i) <= en f /\ st f <= en (pos_seg i)).
Proof.
  unfold crop_range, pos_seg, st, en; simpl fst; simpl snd.
  pose proof (cdiv_iff (fst f - w_dur w - w_start w) (w_step w) i Hstep).
  pose proof (fdiv_iff (snd f - w_start w) (w_step w) i Hstep). nia.
Qed.
(* 'strict': exactly the frames whose window lies inside the focus *)
Theorem crop_strict_spec i :
  (fst (crop_range w f AStrict None) <= i < snd (crop_range w f AStrict None)) <->
  (st f <= st (pos_seg i) /\ en (pos_seg i) <= en f).
Proof.
  unfold crop_range, pos_seg, st, en; simpl fst; simpl snd.
  pose proof (cdiv_iff (fst f - w_start w) (w_step w) i Hstep).
  pose proof (fdiv_iff (snd f - w_dur w - w_start w) (w_step w) i Hstep). nia.
Qed.
Corollary crop_strict_sub_loose i :
  (fst (crop_range w f AStrict None) <= i < snd (crop_range w f AStrict None)) ->
  (fst (crop_range w f ALoose None) <= i < snd (crop_range w f ALoose None)).
Proof.
  rewrite crop_strict_spec, crop_loose_spec. unfold pos_seg, st, en; cbn [fst snd]. lia.
Qed.
(* 'center': the run from the frame nearest the focus start to the frame nearest its end *)
Theorem crop_center_spec :
  crop_range w f ACenter None = (closest_frame w (st f), closest_frame w (en f) + 1).
Proof. reflexivity. Qed.
(* with `fixed`, the number of returned frames is samples(fixed, mode) wherever the focus lies *)
Theorem crop_fixed_count m d :
  snd (crop_range w f m (Some d)) - fst (crop_range w f m (Some d)) = samples w d m.
Proof. destruct m; cbn [crop_range fst snd]; lia. Qed.
(* the index array is the increasing, duplicate-free enumeration of the half-open range *)
Lemma zrange_In i j k : In k (zrange i j) <-> i <= k < j.
Proof.
  unfold zrange. rewrite in_map_iff. split.
  - intros [x [<- H]]. apply in_seq in H. lia.
  - intro H. exists (Z.to_nat (k - i)). split; [lia|]. apply in_seq. lia.
Qed.
End Win.

(* ---- C14: constructor ---- *)
Theorem ctor_rejects dur step start wend :
  win_make dur step start wend = None <->
  (dur <= 0 \/ step <= 0 \/ exists e, wend = Some e /\ e <= start).
Proof.
  unfold win_make. destruct (dur <=? 0) eqn:E1; [split; [left; lia | reflexivity]|].
  destruct (step <=? 0) eqn:E2; [split; [right; left; lia | reflexivity]|].
  destruct wend as [e|].
  - destruct (e <=? start) eqn:E3.
    + split; [intros _; right; right; exists e; split; [reflexivity | lia] | reflexivity].
    + split; [discriminate | intros [H|[H|[e' [H1 H2]]]]; try lia; inversion H1; lia].
  - split; [discriminate | intros [H|[H|[e' [H1 H2]]]]; try lia; discriminate].
Qed.
Theorem ctor_accepts dur step start wend w :
  win_make dur step start wend = Some w ->
  w_dur w = dur /\ w_step w = step /\ w_start w = start /\ w_end w = wend /\ 0 < dur /\ 0 < step /\
  (forall e, wend = Some e -> start < e).
Proof.
  unfold win_make. destruct (dur <=? 0) eqn:E1; [discriminate|]. destruct (step <=? 0) eqn:E2; [discriminate|].
  destruct wend as [e|].
  - destruct (e <=? start) eqn:E3; [discriminate|]. intro H; inversion H; subst; simpl.
    repeat split; try lia. intros e' He; inversion He; lia.
  - intro H; inversion H; subst; simpl. repeat split; try lia. intros e' He; discriminate.
Qed.

(* ---- C15: crop with a Timeline focus ---- *)
Lemma zinsert_In x y l : In y (zinsert x l) <-> y = x \/ In y l.
Proof.
  induction l as [|z l IH]; simpl; [intuition|].
  destruct (x =? z) eqn:E1; [assert (x = z) by lia; subst; simpl; intuition|].
  destruct (x <? z); simpl; [intuition|]. rewrite IH. intuition.
Qed.
Fixpoint zincreasing (l : list Z) : Prop :=
  match l with a :: ((b :: _) as r) => a < b /\ zincreasing r | _ => True end.
Lemma zincreasing_lb a l : zincreasing (a :: l) -> forall y, In y l -> a < y.
Proof.
  revert a. induction l as [|b r IH]; intros a H y Hy; [contradiction|].
  destruct H as [Hab Hr]. destruct Hy as [<-|Hy]; [assumption|]. specialize (IH b Hr y Hy). lia.
Qed.
Lemma zinsert_increasing x l : zincreasing l -> zincreasing (zinsert x l).
Proof.
  induction l as [|z l IH]; intro H; [exact I|]. cbn [zinsert].
  destruct (x =? z) eqn:E1; [exact H|]. destruct (x <? z) eqn:E2; [split; [lia | exact H]|].
  assert (Hl : zincreasing l) by (destruct l; simpl in *; tauto). specialize (IH Hl).
  destruct (zinsert x l) as [|b r] eqn:Ez; [exact I|]. split; [|exact IH].
  assert (In b (zinsert x l)) by (rewrite Ez; now left). apply zinsert_In in H0 as [->|Hb]; [lia|].
  now apply (zincreasing_lb z l H).
Qed.
Lemma fold_zinsert_spec xs : forall acc, zincreasing acc ->
  zincreasing (fold_left (fun acc x => zinsert x acc) xs acc) /\
  forall y, In y (fold_left (fun acc x => zinsert x acc) xs acc) <-> In y acc \/ In y xs.
Proof.
  induction xs as [|x xs IH]; intros acc H; simpl; [split; [assumption | intuition]|].
  destruct (IH (zinsert x acc) (zinsert_increasing x acc H)) as [A B]. split; [exact A|].
  intro y. rewrite B, zinsert_In. intuition.
Qed.
(* the index array of a Timeline focus: increasing, duplicate free, and exactly the union over
   the focus's support segments of the per-segment ranges *)
Theorem crop_indices_tl_spec eps w focus m :
  zincreasing (crop_indices_tl eps w focus m) /\
  forall k, In k (crop_indices_tl eps w focus m) <->
            exists s, In s (support eps 0 focus) /\
                      fst (crop_range w s m None) <= k < snd (crop_range w s m None).
Proof.
  unfold crop_indices_tl. destruct (fold_zinsert_spec
    (flat_map (fun s => let r := crop_range w s m None in zrange (fst r) (snd r)) (support eps 0 focus)) [] I) as [A B].
  split; [exact A|]. intro k. rewrite B. split.
  - intros [[]|H]. apply in_flat_map in H as [s [Is Hk]]. exists s. split; [assumption|]. now apply zrange_In in Hk.
  - intros [s [Is Hk]]. right. apply in_flat_map. exists s. split; [assumption|]. now apply zrange_In.
Qed.
Theorem crop_empty_focus eps w m : crop_indices_tl eps w [] m = [] /\ crop_ranges_tl eps w [] m = [].
Proof. split; reflexivity. Qed.

(* ---- C14: __call__ over one support segment ---- *)
Section Call.
Variable eps : Z.
Hypothesis Heps : 0 <= eps.
Variable w : win.
Hypothesis Hdur : eps < w_dur w.
Hypothesis Hstep : 0 < w_step w.
Variable s : seg.
Hypothesis Hlen : w_dur w <= en s - st s.     (* the segment is at least as long as the window *)

Let sub := mkWin (w_dur w) (w_step w) (st s) (Some (en s)).
Let K := fdiv (en s - st s - w_dur w) (w_step w).      (* last position that fits *)
Definition fit_pos (k : Z) : seg := (st s + k * w_step w, st s + k * w_step w + w_dur w).

Theorem call_positions p :
  In p (filter (fun q => sin s q) (win_iter eps sub)) <->
  exists k, 0 <= k <= K /\ p = fit_pos k.
Proof.
  assert (Hc : forall k, 0 <= k -> (k < win_count sub <-> st s + k * w_step w < en s)).
  { intros k Hk. apply (count_spec sub Hstep (en s) eq_refl k Hk). }
  rewrite (iter_spec eps sub Hdur Hstep (en s) eq_refl), filter_In, in_map_iff.
  pose proof (fdiv_spec (en s - st s - w_dur w) (w_step w) Hstep) as HK. fold K in HK.
  split.
  - intros [[k [<- Ik]] Hs]. apply zrange_In in Ik. exists k. apply sin_iff in Hs.
    unfold pos_seg, sub, st, en in *; cbn [w_start w_step w_dur fst snd] in *.
    split; [|reflexivity]. split; [lia|]. apply (fdiv_iff _ _ k Hstep). unfold st, en. lia.
  - intros [k [[Hk0 HkK] ->]]. apply (fdiv_iff _ _ k Hstep) in HkK. split.
    + exists k. split; [reflexivity|]. apply zrange_In. split; [lia|]. apply Hc; [lia|].
      unfold st, en in *. nia.
    + apply sin_iff. unfold fit_pos, st, en in *; cbn [fst snd]. nia.
Qed.
(* the last regular window stops short of the segment end iff K*step + dur < length:
   exactly then align_last adds the flush window *)
Theorem call_flush_needed : en (fit_pos K) < en s <-> K * w_step w + w_dur w < en s - st s.
Proof. unfold fit_pos, en, st; cbn [fst snd]. lia. Qed.
End Call.

(* window(support) looks at the called window's duration and step only: its own start and end never matter *)
Theorem call_ignores_own_bounds eps w1 w2 segments align_last :
  w_dur w1 = w_dur w2 -> w_step w1 = w_step w2 ->
  win_call eps w1 segments align_last = win_call eps w2 segments align_last.
Proof.
  intros Hd Hs. unfold win_call. apply flat_map_ext. intro s. unfold call_one. now rewrite Hd, Hs.
Qed.
(* ... and a support segment shorter than the window contributes nothing, whatever align_last *)
Theorem call_short_segment eps w s align_last : duration eps s < w_dur w -> call_one eps w s align_last = [].
Proof. intro H. unfold call_one. apply Z.ltb_lt in H. now rewrite H. Qed.

(* crop never reads the window's own end: two windows with the same duration, step and start crop alike, for Segment and
   Timeline focuses, both output forms, every mode, with and without `fixed` *)
Theorem crop_ignores_own_end d s st0 e1 e2 :
  let w1 := mkWin d s st0 e1 in
  let w2 := mkWin d s st0 e2 in
  (forall f m fx, crop_range w1 f m fx = crop_range w2 f m fx) /\
  (forall eps foc m, crop_ranges_tl eps w1 foc m = crop_ranges_tl eps w2 foc m) /\
  (forall eps foc m, crop_indices_tl eps w1 foc m = crop_indices_tl eps w2 foc m) /\
  (forall dd m, samples w1 dd m = samples w2 dd m).
Proof.
  cbv zeta. assert (R : forall f m fx, crop_range (mkWin d s st0 e1) f m fx = crop_range (mkWin d s st0 e2) f m fx) by reflexivity.
  split; [exact R|]. split; [|split].
  - intros eps foc m. unfold crop_ranges_tl. f_equal.
  - intros eps foc m. unfold crop_indices_tl. f_equal.
  - reflexivity.
Qed.
