(* C11: rename_tracks, relabel_tracks and the generated mapping of rename_labels(generator=...). *)
From PV Require Import Model.AnnotationOps Proofs.SegmentP Proofs.SortedP Proofs.SupportP Proofs.DictP
  Proofs.CropP Proofs.AnnotationInvP Proofs.CanonicalIterP Proofs.RoundTripP Proofs.AnnCropP Proofs.AnnCropInterP
  Proofs.WordsP Proofs.AnnSupportP.

Lemma getitem_lookup a s t : getitem a s t = lookup (a_tracks a) s t.
Proof. unfold getitem, lookup. destruct (sd_get s (a_tracks a)); [apply d_get_nm | reflexivity]. Qed.

(* the option-threading fold of the model, when the generator never runs dry *)
Lemma opt_fold_some {X} (g : gen) (f : nat -> name) (ins : ann -> X -> name -> ann) (bound : nat) (l : list X) :
  (forall i, (i < bound)%nat -> gen_nth g i = Some (f i)) -> forall c i, (i + List.length l <= bound)%nat ->
  fold_left (fun st x => let '(acc, i) := st in
                         match acc, gen_nth g i with
                         | Some acc', Some n => (Some (ins acc' x n), S i)
                         | _, _ => (None, S i)
                         end) l (Some c, i)
  = (Some (fst (fold_left (fun st x => (ins (fst st) x (f (snd st)), S (snd st))) l (c, i))),
     snd (fold_left (fun st x => (ins (fst st) x (f (snd st)), S (snd st))) l (c, i))).
Proof.
  intro Hg. induction l as [|x l IH]; intros c i Hb; cbn [fold_left fst snd]; [reflexivity|].
  cbn [List.length] in Hb. rewrite Hg by lia. apply IH. lia.
Qed.

Lemma flat_map_perm {A B} (f g : A -> list B) l : (forall x, In x l -> Permutation (f x) (g x)) ->
  Permutation (flat_map f l) (flat_map g l).
Proof.
  induction l as [|x l IH]; intro H; cbn [flat_map]; [reflexivity|].
  apply Permutation_app; [apply H; now left | apply IH; intros y Hy; apply H; now right].
Qed.
(* the (segment, label) content read off the iteration = the content of the track map *)
Lemma itertracks_entries m : Permutation (map (fun x : triple => (fst (fst x), snd x)) (itertracks_m m)) (entries m).
Proof.
  unfold itertracks_m, entries. rewrite flat_map_concat_map, concat_map, map_map, <- flat_map_concat_map.
  apply flat_map_perm. intros [s d] _. cbn [fst snd]. rewrite map_map. cbn [fst snd].
  apply Permutation_map. apply sort_stable_perm.
Qed.

Section Fold.
Variable eps : Z.
Hypothesis Heps : 0 <= eps.
Variable f : nat -> name.
Variable bound : nat.
Hypothesis f_inj : forall i j, (i < bound)%nat -> (j < bound)%nat -> f i = f j -> i = j.

Definition names_below (c : ann) (i : nat) : Prop :=
  forall s t, In t (get_tracks c s) -> exists j, (j < i)%nat /\ t = f j.

(* ---- rename_tracks: records (segment, label), names from f ---- *)
Definition rt_step (st : ann * nat) (x : triple) : ann * nat :=
  (setitem eps (fst st) (fst (fst x)) (f (snd st)) (snd x), S (snd st)).

Lemma rt_fold recs : forall c i, AInv eps c -> names_below c i ->
  (forall x, In x recs -> nonempty eps (fst (fst x)) = true) ->
  (i + List.length recs <= bound)%nat ->
  let r := fst (fold_left rt_step recs (c, i)) in
  AInv eps r /\
  Permutation (entries (a_tracks r)) (map (fun x : triple => (fst (fst x), snd x)) recs ++ entries (a_tracks c)) /\
  (forall k x, nth_error recs k = Some x -> getitem r (fst (fst x)) (f (i + k)) = Some (snd x)) /\
  (forall s j, (j < i)%nat -> getitem r s (f j) = getitem c s (f j)) /\
  a_uri r = a_uri c /\ a_modality r = a_modality c.
Proof.
  induction recs as [|[[s t0] l] recs IH]; intros c i I Wb Hne Hb; cbn [fold_left fst snd app map].
  - split; [exact I|]. split; [reflexivity|]. split; [intros [|k] x; discriminate|]. split; [reflexivity|]. split; reflexivity.
  - change (rt_step (c, i) (s, t0, l)) with (setitem eps c s (f i) l, S i). set (t := f i). cbn [List.length] in Hb.
    assert (Hf : ~ In t (get_tracks c s)).
    { intro Hin. destruct (Wb s t Hin) as [j [Hj E]]. unfold t in E. apply f_inj in E; lia. }
    assert (Hs : nonempty eps s = true) by (apply (Hne (s, t0, l)); now left).
    pose proof (AInv_setitem eps c s t l I) as I'.
    destruct (IH (setitem eps c s t l) (S i) I') as [J [P [G [K [U M]]]]].
    + intros s' t' Hin. apply (get_tracks_setitem eps) in Hin as [->|Hin].
      * exists i. split; [lia | reflexivity].
      * destruct (Wb s' t' Hin) as [j [Hj E]]. exists j. split; [lia | exact E].
    + intros x Hx. apply Hne. now right.
    + lia.
    + cbv zeta in *. split; [exact J|]. split; [|split; [|split]].
      * rewrite P. rewrite (setitem_fresh_entries eps c s t l (i_wf _ _ I) Hs Hf). symmetry. apply Permutation_middle.
      * intros [|k] x Hx; cbn [nth_error] in Hx.
        -- inversion Hx; subst x. cbn [fst snd]. rewrite Nat.add_0_r. rewrite (K s i) by lia. fold t.
           rewrite getitem_lookup, (setitem_unfold eps c s t l Hs). cbn [a_tracks].
           rewrite lookup_setitem, seqb_refl, name_eqb_refl. reflexivity.
        -- replace (i + S k)%nat with (S i + k)%nat by lia. now apply G.
      * intros s' j Hj. rewrite (K s' j) by lia.
        rewrite !getitem_lookup, (setitem_unfold eps c s t l Hs). cbn [a_tracks]. rewrite lookup_setitem.
        destruct (name_eqb (f j) t) eqn:E; [|now rewrite andb_false_r].
        apply name_eqb_eq in E. unfold t in E. apply f_inj in E; lia.
      * destruct (setitem_meta eps c s t l) as [U' M']. split; congruence.
Qed.

(* ---- relabel_tracks: keys (segment, track) kept, labels from f ---- *)
Definition rl_step (st : ann * nat) (x : triple) : ann * nat :=
  (setitem eps (fst st) (fst (fst x)) (snd (fst x)) (f (snd st)), S (snd st)).
Definition key_of (x : triple) : seg * name := fst x.

Lemma rl_fold recs : forall c i, AInv eps c -> NoDup (map key_of recs) ->
  (forall x, In x recs -> nonempty eps (fst (fst x)) = true) ->
  let r := fst (fold_left rl_step recs (c, i)) in
  AInv eps r /\
  (forall k x, nth_error recs k = Some x -> getitem r (fst (fst x)) (snd (fst x)) = Some (f (i + k))) /\
  (forall s t, ~ In (s, t) (map key_of recs) -> getitem r s t = getitem c s t) /\
  a_uri r = a_uri c /\ a_modality r = a_modality c.
Proof.
  clear f_inj. induction recs as [|[[s t] l] recs IH]; intros c i I Nd Hne; cbn [fold_left fst snd map].
  - split; [exact I|]. split; [intros [|k] x; discriminate|]. split; [reflexivity|]. split; reflexivity.
  - change (rl_step (c, i) (s, t, l)) with (setitem eps c s t (f i), S i). cbn [map key_of fst] in Nd. inversion Nd as [|? ? Hnin Nd']; subst.
    assert (Hs : nonempty eps s = true) by (apply (Hne (s, t, l)); now left).
    pose proof (AInv_setitem eps c s t (f i) I) as I'.
    destruct (IH (setitem eps c s t (f i)) (S i) I' Nd') as [J [G [K [U M]]]].
    + intros x Hx. apply Hne. now right.
    + cbv zeta in *. split; [exact J|]. split; [|split].
      * intros [|k] x Hx; cbn [nth_error] in Hx.
        -- inversion Hx; subst x. cbn [fst snd]. rewrite Nat.add_0_r. rewrite (K s t Hnin).
           rewrite getitem_lookup, (setitem_unfold eps c s t (f i) Hs). cbn [a_tracks].
           rewrite lookup_setitem, seqb_refl, name_eqb_refl. reflexivity.
        -- replace (i + S k)%nat with (S i + k)%nat by lia. now apply G.
      * intros s' t' Hn. cbn [map key_of fst] in Hn. rewrite (K s' t') by (intro; apply Hn; now right).
        rewrite !getitem_lookup, (setitem_unfold eps c s t (f i) Hs). cbn [a_tracks]. rewrite lookup_setitem.
        destruct (seqb s' s && name_eqb t' t) eqn:E; [|reflexivity].
        apply andb_true_iff in E as [E1 E2]. apply seqb_eq in E1. apply name_eqb_eq in E2. subst. exfalso. apply Hn. now left.
      * destruct (setitem_meta eps c s t (f i)) as [U' M']. split; congruence.
Qed.

(* ---- the mapping built by rename_labels(generator=...) ---- *)
Definition gm_step (st : list (name * name) * nat) (l : name) : list (name * name) * nat :=
  (d_set l (f (snd st)) (fst st), S (snd st)).
Lemma gm_fold labs : forall m i, NoDup labs -> (forall l, In l labs -> d_get l m = None) ->
  let r := fst (fold_left gm_step labs (m, i)) in
  (forall k l, nth_error labs k = Some l -> d_get l r = Some (f (i + k))) /\
  (forall l, ~ In l labs -> d_get l r = d_get l m).
Proof.
  clear f_inj. induction labs as [|x labs IH]; intros m i Nd Hm; cbn [fold_left fst snd].
  - split; [intros [|k] l; discriminate | reflexivity].
  - change (gm_step (m, i) x) with (d_set x (f i) m, S i). inversion Nd as [|? ? Hnin Nd']; subst.
    destruct (IH (d_set x (f i) m) (S i) Nd') as [G K].
    + intros l Hl. rewrite (d_get_nm l (d_set x (f i) m)), (d_set_nm x (f i) m).
      rewrite nm_get_set_other by (intro; subst; contradiction).
      rewrite <- (d_get_nm l m). apply Hm. now right.
    + cbv zeta in *. split.
      * intros [|k] l Hl; cbn [nth_error] in Hl.
        -- inversion Hl; subst l. rewrite Nat.add_0_r, (K x Hnin), (d_get_nm x (d_set x (f i) m)), (d_set_nm x (f i) m). apply nm_get_set_same.
        -- replace (i + S k)%nat with (S i + k)%nat by lia. now apply G.
      * intros l Hn. rewrite (K l) by (intro; apply Hn; now right).
        rewrite (d_get_nm l (d_set x (f i) m)), (d_set_nm x (f i) m).
        rewrite nm_get_set_other by (intro; subst; apply Hn; now left). now rewrite <- (d_get_nm l m).
Qed.
End Fold.

(* ---- the two generators of the library ---- *)
Definition f_int (i : nat) : name := NInt (Z.of_nat i).
Definition f_str (i : nat) : name := NStr (word (Z.of_nat i)).
Lemma f_int_inj n i j : (i < n)%nat -> (j < n)%nat -> f_int i = f_int j -> i = j.
Proof. intros _ _ E. inversion E. lia. Qed.
Lemma f_str_inj n i j : Z.of_nat n <= word_bound -> (i < n)%nat -> (j < n)%nat -> f_str i = f_str j -> i = j.
Proof. intros Hn Hi Hj E. inversion E as [E']. apply word_inj in E'; lia. Qed.

Definition gen_fun (g : gen) : nat -> name :=
  match g with GString => f_str | GInt => f_int | GList l => fun i => nth i l (NInt 0) end.
(* the generator can supply n pairwise distinct values: always for 'int', up to the fuel of [word] for
   'string', and for a user-supplied iterable when it holds at least n values without repetition *)
Definition gen_ok (g : gen) (n : nat) : Prop :=
  match g with GString => Z.of_nat n <= word_bound | GInt => True | GList l => NoDup l /\ (n <= List.length l)%nat end.
Lemma gen_fun_nth g n i : gen_ok g n -> (i < n)%nat -> gen_nth g i = Some (gen_fun g i).
Proof.
  destruct g as [| |l]; cbn [gen_ok gen_fun gen_nth]; try reflexivity.
  intros [_ Hl] Hi. apply nth_error_nth'. lia.
Qed.
Lemma gen_fun_inj g n i j : gen_ok g n -> (i < n)%nat -> (j < n)%nat -> gen_fun g i = gen_fun g j -> i = j.
Proof.
  destruct g as [| |l]; cbn [gen_ok gen_fun]; [apply f_str_inj | intros _; apply f_int_inj|].
  intros [Nd Hl] Hi Hj E. apply (proj1 (NoDup_nth l (NInt 0)) Nd i j); lia || exact E.
Qed.
(* a user-supplied iterable that runs dry makes the call fail *)
Lemma gen_exhausted l i : (List.length l <= i)%nat -> gen_nth (GList l) i = None.
Proof. intro H. cbn [gen_nth]. now apply nth_error_None. Qed.

Section Specs.
Variable eps : Z.
Hypothesis Heps : 0 <= eps.

Lemma itertracks_nonempty a x : AInv eps a -> In x (itertracks a) -> nonempty eps (fst (fst x)) = true.
Proof.
  intros I Hx. destruct x as [[s t] l]. cbn [fst]. apply (itertracks_In eps _ s t l (i_wf _ _ I)) in Hx as [d [Hd _]].
  apply (stored_segments_nonempty eps a s I). now apply (sd_get_Some_In s d).
Qed.
Lemma itertracks_m_keys_NoDup m : ssorted (skeys m) ->
  Forall (fun sd : seg * tracks_t => snd sd <> [] /\ NoDup (keys (snd sd))) m ->
  NoDup (map key_of (itertracks_m m)).
Proof.
  unfold itertracks_m. induction m as [|[s d] m IH]; intros Hk F; cbn [flat_map map]; [constructor|].
  cbn [skeys map fst] in Hk. apply ssorted_inv in Hk as [Hk Hlt]. inversion F as [|? ? [_ Hd] F']; subst.
  rewrite map_app. apply NoDup_app_intro.
  - cbn [fst snd]. rewrite map_map. cbn [key_of fst].
    replace (map (fun x : name * name => (s, fst x)) (sorted_tracks d)) with (map (fun t => (s, t)) (map fst (sorted_tracks d))) by now rewrite map_map.
    apply NoDup_map_inj; [intros x y E; now inversion E|]. cbn [snd] in Hd.
    eapply Permutation_NoDup; [apply Permutation_map; symmetry; apply sort_stable_perm | exact Hd].
  - now apply IH.
  - intros [s' t'] H1 H2. cbn [fst snd] in H1. apply in_map_iff in H1 as [x [E1 H1]]. apply in_map_iff in H1 as [y [E H1]]. subst x.
    cbn [key_of fst] in E1. inversion E1; subst s'.
    apply in_map_iff in H2 as [z [E2 H2]]. apply in_flat_map in H2 as [[s2 d2] [Hm H2]]. cbn [fst snd] in H2.
    apply in_map_iff in H2 as [w [E H2]]. subst z. cbn [key_of fst] in E2. inversion E2; subst s2.
    rewrite Forall_forall in Hlt. assert (In s (skeys m)) as Hin by (apply in_map_iff; exists (s, d2); tauto).
    apply (slt_irrefl s). now apply Hlt.
Qed.
Lemma itertracks_keys_NoDup a : AInv eps a -> NoDup (map key_of (itertracks a)).
Proof. intro I. pose proof (i_wf _ _ I) as W. apply itertracks_m_keys_NoDup; apply W. Qed.

(* rename_tracks(generator): every (segment, label) kept, one track each, the k-th track in
   iteration order is named by the k-th value of the generator *)
Theorem rename_tracks_spec a g : AInv eps a -> gen_ok g (List.length (itertracks a)) ->
  exists r, rename_tracks_ann eps a g = Some r /\ AInv eps r /\
    Permutation (entries (a_tracks r)) (entries (a_tracks a)) /\
    (forall k x, nth_error (itertracks a) k = Some x -> getitem r (fst (fst x)) (gen_fun g k) = Some (snd x)) /\
    a_uri r = a_uri a /\ a_modality r = a_modality a.
Proof.
  intros I Hg. unfold rename_tracks_ann.
  rewrite (opt_fold_some g (gen_fun g) (fun acc (x : triple) n => setitem eps acc (fst (fst x)) n (snd x))
             (List.length (itertracks a)) (itertracks a) (fun i => gen_fun_nth g _ i Hg)) by lia.
  cbn [fst]. eexists. split; [reflexivity|].
  destruct (rt_fold eps (gen_fun g) (List.length (itertracks a)) (fun i j => gen_fun_inj g _ i j Hg)
              (itertracks a) (Annotation.a_empty (a_uri a) (a_modality a)) O) as [J [P [G [_ [U M]]]]].
  - apply AInv_empty.
  - intros s t Hin. unfold get_tracks in Hin. cbn in Hin. destruct Hin.
  - intros x Hx. now apply (itertracks_nonempty a).
  - apply Nat.le_refl.
  - cbv zeta in *. unfold rt_step in *. split; [exact J|]. split; [|split; [exact G | split; [exact U | exact M]]].
    rewrite P. cbn [Annotation.a_empty a_tracks entries flat_map]. rewrite app_nil_r. apply itertracks_entries.
Qed.

(* relabel_tracks(generator): every (segment, track) kept and nothing added, the k-th track in
   iteration order gets the k-th value of the generator as its label *)
Theorem relabel_tracks_spec a g : AInv eps a -> gen_ok g (List.length (itertracks a)) ->
  exists r, relabel_tracks_ann eps a g = Some r /\ AInv eps r /\
    (forall k x, nth_error (itertracks a) k = Some x -> getitem r (fst (fst x)) (snd (fst x)) = Some (gen_fun g k)) /\
    (forall s t, getitem a s t = None -> getitem r s t = None) /\
    a_uri r = a_uri a /\ a_modality r = a_modality a.
Proof.
  intros I Hg. unfold relabel_tracks_ann.
  rewrite (opt_fold_some g (gen_fun g) (fun acc (x : triple) n => setitem eps acc (fst (fst x)) (snd (fst x)) n)
             (List.length (itertracks a)) (itertracks a) (fun i => gen_fun_nth g _ i Hg)) by lia.
  cbn [fst]. eexists. split; [reflexivity|].
  destruct (rl_fold eps (gen_fun g) (itertracks a) (Annotation.a_empty (a_uri a) (a_modality a)) O) as [J [G [K [U M]]]].
  - apply AInv_empty.
  - now apply itertracks_keys_NoDup.
  - intros x Hx. now apply (itertracks_nonempty a).
  - cbv zeta in *. unfold rl_step in *. split; [exact J|]. split; [exact G|]. split; [|split; [exact U | exact M]].
    intros s t Hn. rewrite K; [reflexivity|]. intro Hin. apply in_map_iff in Hin as [[[s' t'] l] [E Hin]].
    cbn [key_of fst] in E. inversion E; subst. apply (itertracks_lookup eps _ s t l (i_wf _ _ I)) in Hin.
    rewrite getitem_lookup in Hn. congruence.
Qed.

(* rename_labels(generator=g) without a mapping: the k-th label of labels() is mapped to the
   k-th generated name, other labels are not mentioned *)
Theorem generated_mapping_spec a g : gen_ok g (List.length (snd (labels eps a))) -> AInv eps a ->
  exists m, generated_mapping eps a g = Some m /\
    (forall k l, nth_error (snd (labels eps a)) k = Some l -> d_get l m = Some (gen_fun g k)) /\
    (forall l, ~ In l (snd (labels eps a)) -> d_get l m = None).
Proof.
  intros Hg I. unfold generated_mapping.
  assert (Nd : NoDup (snd (labels eps a))).
  { pose proof (labels_spec eps a I) as HL. destruct (labels eps a) as [a1 L]. cbn [snd]. tauto. }
  pose proof (fun (ins : list (name * name) -> name -> name -> list (name * name)) => True) as _.
  (* same option-threading shape, on mappings instead of annotations *)
  assert (E : forall labs m i, (i + List.length labs <= List.length (snd (labels eps a)))%nat ->
    fold_left (fun st l => let '(acc, i) := st in
                 match acc, gen_nth g i with
                 | Some m, Some n => (Some (d_set l n m), S i)
                 | _, _ => (None, S i)
                 end) labs (Some m, i)
    = (Some (fst (fold_left (gm_step (gen_fun g)) labs (m, i))), snd (fold_left (gm_step (gen_fun g)) labs (m, i)))).
  { induction labs as [|x labs IH]; intros m i Hb; cbn [fold_left fst snd]; [reflexivity|].
    cbn [List.length] in Hb. rewrite (gen_fun_nth g _ i Hg) by lia. apply IH. lia. }
  rewrite E by lia. cbn [fst]. eexists. split; [reflexivity|].
  destruct (gm_fold (gen_fun g) (snd (labels eps a)) [] O Nd (fun _ _ => eq_refl)) as [G K].
  cbv zeta in *. split; [exact G | intros l Hn; now rewrite K].
Qed.
End Specs.

Lemma key_dec (a b : seg * name) : {a = b} + {a <> b}.
Proof. decide equality; [apply name_dec | apply seg_eq_dec]. Qed.

(* ---- Timeline.to_annotation(generator): one '_' track per segment, labelled in timeline order;
        get_timeline of the result gives the timeline back ---- *)
Section ToAnnotation.
Variable eps : Z.
Hypothesis Heps : 0 <= eps.

Theorem to_annotation_spec t u m g : wf eps t -> gen_ok g (List.length t) ->
  exists r, to_annotation eps t u m g = Some r /\ AInv eps r /\
    (forall k s, nth_error t k = Some s -> getitem r s default_track = Some (gen_fun g k)) /\
    (forall s tr, getitem r s tr <> None -> In s t /\ tr = default_track) /\
    skeys (a_tracks r) = t /\
    a_uri r = u /\ a_modality r = m.
Proof.
  intros [Hsort Hne] Hg. unfold to_annotation.
  rewrite (opt_fold_some g (gen_fun g) (fun acc (s : seg) n => setitem eps acc s default_track n)
             (List.length t) t (fun i => gen_fun_nth g _ i Hg)) by lia.
  cbn [fst]. eexists. split; [reflexivity|].
  set (recs := map (fun s : seg => (s, default_track, default_track)) t).
  assert (Efold : forall c i, fold_left (fun st (s : seg) => (setitem eps (fst st) s default_track (gen_fun g (snd st)), S (snd st))) t (c, i)
                              = fold_left (rl_step eps (gen_fun g)) recs (c, i)).
  { unfold recs. clear. induction t as [|s t IH]; intros c i; cbn [fold_left map]; [reflexivity|]. now rewrite IH. }
  rewrite Efold.
  assert (Hkeys : map key_of recs = map (fun s => (s, default_track)) t) by (unfold recs; rewrite map_map; reflexivity).
  destruct (rl_fold eps (gen_fun g) recs (Annotation.a_empty u m) O) as [J [G [K [U M]]]].
  - apply AInv_empty.
  - rewrite Hkeys. apply NoDup_map_inj; [intros x y E; now inversion E | now apply ssorted_NoDup].
  - intros x Hx. unfold recs in Hx. apply in_map_iff in Hx as [s [<- Hs]]. cbn [fst]. rewrite Forall_forall in Hne. now apply Hne.
  - cbv zeta in *. split; [exact J|].
    assert (G' : forall k s, nth_error t k = Some s ->
              getitem (fst (fold_left (rl_step eps (gen_fun g)) recs (Annotation.a_empty u m, O))) s default_track = Some (gen_fun g k)).
    { intros k s Hk. apply (G k (s, default_track, default_track)). unfold recs. rewrite nth_error_map, Hk. reflexivity. }
    assert (N' : forall s tr, getitem (fst (fold_left (rl_step eps (gen_fun g)) recs (Annotation.a_empty u m, O))) s tr <> None ->
              In s t /\ tr = default_track).
    { intros s tr Hn. destruct (in_dec key_dec (s, tr) (map key_of recs)) as [Hin|Hnin].
      - rewrite Hkeys in Hin. apply in_map_iff in Hin as [s' [E Hs']]. inversion E; subst. tauto.
      - exfalso. apply Hn. rewrite (K s tr Hnin). reflexivity. }
    split; [exact G'|]. split; [exact N'|]. split; [|split; [exact U | exact M]].
    apply ssorted_ext; [apply (i_wf _ _ J) | exact Hsort|]. intro s. split.
    + intro Hs. apply (keys_from_lookup eps _ s (i_wf _ _ J)) in Hs as [tr [l Hl]].
      rewrite <- getitem_lookup in Hl. destruct (N' s tr) as [A _]; [congruence | exact A].
    + intro Hs. destruct (In_nth_error _ _ Hs) as [k Hk]. specialize (G' k s Hk). rewrite getitem_lookup in G'.
      apply (keys_from_lookup eps _ s (i_wf _ _ J)). eauto.
Qed.
End ToAnnotation.

(* ---- a generator that runs dry: the call fails (StopIteration in the implementation) ---- *)
Section Exhausted.
Context {X : Type} (g : gen) (ins : ann -> X -> name -> ann).
Let step := fun (st : option ann * nat) (x : X) =>
  let '(acc, i) := st in
  match acc, gen_nth g i with
  | Some acc', Some n => (Some (ins acc' x n), S i)
  | _, _ => (None, S i)
  end.
Lemma opt_fold_none l : forall i, fst (fold_left step l (None, i)) = None.
Proof. induction l as [|x l IH]; intro i; cbn [fold_left]; [reflexivity|]. unfold step at 2. apply IH. Qed.
Lemma opt_fold_exhaust l : forall c i k, (k < List.length l)%nat -> gen_nth g (i + k) = None ->
  fst (fold_left step l (Some c, i)) = None.
Proof.
  induction l as [|x l IH]; intros c i k Hk Hn; cbn [List.length] in Hk; [lia|]. cbn [fold_left]. unfold step at 2.
  destruct (gen_nth g i) as [n|] eqn:E.
  - destruct k as [|k]; [rewrite Nat.add_0_r in Hn; congruence|].
    apply (IH _ (S i) k); [lia|]. now replace (S i + k)%nat with (i + S k)%nat by lia.
  - apply opt_fold_none.
Qed.
End Exhausted.

Theorem rename_tracks_exhausted eps a l : (List.length l < List.length (itertracks a))%nat ->
  rename_tracks_ann eps a (GList l) = None.
Proof.
  intro H. unfold rename_tracks_ann.
  apply (opt_fold_exhaust (GList l) (fun acc (x : triple) n => setitem eps acc (fst (fst x)) n (snd x)) (itertracks a) _ O (List.length l) H).
  apply gen_exhausted. lia.
Qed.
Theorem relabel_tracks_exhausted eps a l : (List.length l < List.length (itertracks a))%nat ->
  relabel_tracks_ann eps a (GList l) = None.
Proof.
  intro H. unfold relabel_tracks_ann.
  apply (opt_fold_exhaust (GList l) (fun acc (x : triple) n => setitem eps acc (fst (fst x)) (snd (fst x)) n) (itertracks a) _ O (List.length l) H).
  apply gen_exhausted. lia.
Qed.

(* Timeline.to_annotation with a caller's name list that runs out before the segments do: refused (never an annotation
   holding only the first segments); with enough names (no repetition) it is never refused *)
Theorem to_annotation_exhausted eps t u m l : (List.length l < List.length t)%nat ->
  to_annotation eps t u m (GList l) = None.
Proof.
  intro H. unfold to_annotation.
  apply (opt_fold_exhaust (GList l) (fun acc (s : seg) n => setitem eps acc s default_track n) t _ O (List.length l) H).
  apply gen_exhausted. lia.
Qed.
Theorem to_annotation_refused_iff eps t u m l : wf eps t -> NoDup l ->
  (to_annotation eps t u m (GList l) = None <-> (List.length l < List.length t)%nat).
Proof.
  intros Hw Nd. split.
  - intro Hn. destruct (Nat.lt_ge_cases (List.length l) (List.length t)) as [Hlt|Hge]; [exact Hlt|].
    destruct (to_annotation_spec eps t u m (GList l) Hw (conj Nd Hge)) as [r [Hr _]]. congruence.
  - apply to_annotation_exhausted.
Qed.
