(* C05 / C10 (annotation parts): Annotation.co_iter and Annotation.get_overlap. *)
From PV Require Import Model.AnnotationOps Proofs.SegmentP Proofs.SortedP Proofs.TimelineInvP Proofs.SupportP
  Proofs.CropP Proofs.GapsP Proofs.DictP Proofs.AnnotationInvP Proofs.CooccurrenceP Proofs.AnnCropP Proofs.GeneratorsP.

Section AnnCo.
Variable eps : Z.
Hypothesis Heps : 0 <= eps.

Lemma get_tracks_key a s t : In t (get_tracks a s) -> In s (skeys (a_tracks a)).
Proof.
  unfold get_tracks. destruct (sd_get s (a_tracks a)) as [d|] eqn:E; [intros _; now apply (sd_get_Some_In s d) | contradiction].
Qed.

(* Annotation.co_iter pairs exactly the tracks of intersecting segments, each pair once *)
Theorem ann_co_iter_exact a b s t s' t' : WF eps (a_tracks a) -> WF eps (a_tracks b) ->
  (In ((s, t), (s', t')) (co_iter_ann eps a b) <->
   In t (get_tracks a s) /\ In t' (get_tracks b s') /\ nonempty eps (sand s s') = true).
Proof.
  intros Wa Wb. rewrite (co_iter_ann_In eps a b s t s' t').
  rewrite (tline_is_keys eps _ Wa), (tline_is_keys eps _ Wb).
  assert (Wka : wf eps (skeys (a_tracks a))) by (split; apply Wa).
  assert (Wkb : wf eps (skeys (a_tracks b))) by (split; apply Wb).
  rewrite (co_iter_In_and eps Heps _ _ s s' Wka Wkb). split; [tauto|].
  intros [Ht [Ht' Hn]]. repeat split; try assumption; eapply get_tracks_key; eassumption.
Qed.
Theorem ann_co_iter_once a b : WF eps (a_tracks a) -> WF eps (a_tracks b) -> NoDup (co_iter_ann eps a b).
Proof. apply co_iter_ann_NoDup. exact Heps. Qed.
End AnnCo.

(* Annotation.get_overlap(): canonical decomposition of the cells where two tracks with different
   labels are active together (eps = 0, labels = None) *)
Definition two_labels_active (a : ann) (k : Z) : Prop :=
  exists s t l s' t' l', getitem a s t = Some l /\ getitem a s' t' = Some l' /\ l <> l' /\
                         st s <= k < en s /\ st s' <= k < en s'.
Lemma getitem_tracks a s t l : getitem a s t = Some l -> In t (get_tracks a s).
Proof.
  unfold getitem, get_tracks. destruct (sd_get s (a_tracks a)) as [d|]; [|discriminate]. rewrite d_get_nm. intro H.
  apply nm_get_Some_In in H. exact H.
Qed.
Lemma tracks_getitem a s t : WF 0 (a_tracks a) -> In t (get_tracks a s) -> exists l, getitem a s t = Some l.
Proof.
  intro W. unfold getitem, get_tracks. destruct (sd_get s (a_tracks a)) as [d|]; [|contradiction]. rewrite d_get_nm. intro H.
  destruct (nm_get t d) as [l|] eqn:E; [eauto|]. apply nm_get_None in E. contradiction.
Qed.

Theorem ann_get_overlap_spec a : WF 0 (a_tracks a) ->
  canonical (get_overlap_ann 0 a None) /\
  (forall k, covers_cell (get_overlap_ann 0 a None) k <-> two_labels_active a k).
Proof.
  intro W. unfold get_overlap_ann.
  set (kept := filter (fun p : (seg * name) * (seg * name) => let '((s, t), (s', t')) := p in
              match getitem a s t, getitem a s' t' with Some l1, Some l2 => negb (name_eqb l1 l2) | _, _ => false end)
              (co_iter_ann 0 a a)).
  set (m := map (fun p : (seg * name) * (seg * name) => sand (fst (fst p)) (fst (snd p))) kept).
  destruct (support_canonical_cells (tl_of 0 m) (wf_tl_of _ _)) as [Hc Ec]. split; [exact Hc|].
  intro k. rewrite Ec, tl_of_cells. unfold m, kept. split.
  - intros [y [Iy Hk]]. apply in_map_iff in Iy as [[[s t] [s' t']] [<- Ip]]. cbn [fst snd] in Hk.
    apply filter_In in Ip as [Ip Hl].
    destruct (getitem a s t) as [l|] eqn:E1; [|discriminate]. destruct (getitem a s' t') as [l'|] eqn:E2; [|discriminate].
    apply negb_true_iff, name_eqb_neq in Hl.
    exists s, t, l, s', t', l'. unfold sand in Hk. pairs. repeat split; auto; lia.
  - intros [s [t [l [s' [t' [l' [E1 [E2 [Hn [Hk Hk']]]]]]]]]]. exists (sand s s'). split.
    + apply in_map_iff. exists ((s, t), (s', t')). split; [reflexivity|]. apply filter_In. split.
      * apply (ann_co_iter_exact 0 Z0le a a s t s' t' W W). repeat split.
        -- now apply (getitem_tracks a s t l).
        -- now apply (getitem_tracks a s' t' l').
        -- unfold nonempty, sand. pairs. lia.
      * rewrite E1, E2. now apply negb_true_iff, name_eqb_neq.
    + unfold sand. pairs. lia.
Qed.

(* ---------- Annotation.get_overlap(), every precision ---------- *)
Section AnnOverlapEps.
Variable eps : Z.
Hypothesis Heps : 0 <= eps.
Variable a : ann.
Hypothesis W : WF eps (a_tracks a).

(* the intersections the sweep merges: s & s' for two tracks carrying different labels *)
Definition label_overlaps : list seg :=
  tl_of eps (map (fun p : (seg * name) * (seg * name) => sand (fst (fst p)) (fst (snd p)))
    (filter (fun p : (seg * name) * (seg * name) => let '((s, t), (s', t')) := p in
              match getitem a s t, getitem a s' t' with Some l1, Some l2 => negb (name_eqb l1 l2) | _, _ => false end)
            (co_iter_ann eps a a))).

Lemma get_overlap_ann_unfold : get_overlap_ann eps a None = support eps 0 label_overlaps.
Proof. reflexivity. Qed.

Lemma label_overlaps_In y :
  In y label_overlaps <->
  exists s t l s' t' l', getitem a s t = Some l /\ getitem a s' t' = Some l' /\ l <> l' /\
                         y = sand s s' /\ nonempty eps y = true.
Proof.
  unfold label_overlaps. rewrite tl_of_In, in_map_iff. split.
  - intros [[[[s t] [s' t']] [E Ip]] Hy]. cbn [fst snd] in E. apply filter_In in Ip as [Ip Hl].
    destruct (getitem a s t) as [l|] eqn:E1; [|discriminate]. destruct (getitem a s' t') as [l'|] eqn:E2; [|discriminate].
    apply negb_true_iff, name_eqb_neq in Hl. exists s, t, l, s', t', l'. repeat split; auto.
  - intros [s [t [l [s' [t' [l' [E1 [E2 [Hn [-> Hy]]]]]]]]]]. split; [|exact Hy].
    exists ((s, t), (s', t')). split; [reflexivity|]. apply filter_In. split.
    + apply (ann_co_iter_exact eps Heps a a s t s' t' W W). repeat split; auto.
      * now apply (getitem_tracks a s t l).
      * now apply (getitem_tracks a s' t' l').
    + rewrite E1, E2. now apply negb_true_iff, name_eqb_neq.
Qed.

Theorem ann_get_overlap_eps_shape :
  separated eps 0 (get_overlap_ann eps a None) /\ Forall (ne eps) (get_overlap_ann eps a None).
Proof.
  rewrite get_overlap_ann_unfold.
  assert (Wl : wf eps label_overlaps) by apply wf_tl_of.
  rewrite (support_is_support_iter eps 0 Heps _ Wl). exact (support_iter_separated eps 0 Heps _ Wl).
Qed.

Theorem ann_get_overlap_eps_sound k : covers_cell (get_overlap_ann eps a None) k ->
  two_labels_active a k \/ in_bridged_gap eps 0 label_overlaps k.
Proof.
  rewrite get_overlap_ann_unfold.
  assert (Wl : wf eps label_overlaps) by apply wf_tl_of.
  rewrite (support_is_support_iter eps 0 Heps _ Wl). intro H.
  destruct (support_iter_cover_sound eps 0 Heps _ k Wl H) as [[y [Iy Hk]]|G]; [left | now right].
  apply label_overlaps_In in Iy as [s [t [l [s' [t' [l' [E1 [E2 [Hn [-> _]]]]]]]]]].
  exists s, t, l, s', t', l'. unfold sand in Hk. pairs. repeat split; auto; lia.
Qed.

Theorem ann_get_overlap_eps_complete s t l s' t' l' :
  getitem a s t = Some l -> getitem a s' t' = Some l' -> l <> l' -> nonempty eps (sand s s') = true ->
  exists o, In o (get_overlap_ann eps a None) /\ st o <= Z.max (st s) (st s') /\ Z.min (en s) (en s') <= en o.
Proof.
  intros E1 E2 Hn Hy. rewrite get_overlap_ann_unfold.
  assert (Wl : wf eps label_overlaps) by apply wf_tl_of.
  rewrite (support_is_support_iter eps 0 Heps _ Wl).
  assert (Iy : In (sand s s') label_overlaps).
  { apply label_overlaps_In. exists s, t, l, s', t', l'. repeat split; auto. }
  destruct (support_iter_includes eps 0 Heps _ _ Wl Iy) as [o [Io So]]. apply sin_iff in So.
  exists o. split; [exact Io|]. unfold sand in So. pairs. lia.
Qed.
End AnnOverlapEps.

(* the label request of get_overlap(labels) is read as a set: order and repetitions do not matter *)
Lemma name_in_ext l1 l2 : (forall x, In x l1 <-> In x l2) -> forall n, name_in n l1 = name_in n l2.
Proof.
  intros H n. destruct (name_in n l1) eqn:E1, (name_in n l2) eqn:E2; try reflexivity.
  - apply name_in_In, H, name_in_In in E1. congruence.
  - apply name_in_In, H, name_in_In in E2. congruence.
Qed.
Theorem subset_ann_request_is_a_set eps a l1 l2 inv : (forall x, In x l1 <-> In x l2) ->
  subset_ann eps a l1 inv = subset_ann eps a l2 inv.
Proof.
  intro H. unfold subset_ann. destruct (labels eps a) as [a1 all].
  assert (E : forall l, name_in l l1 = name_in l l2) by (apply name_in_ext; exact H).
  replace (filter (fun l => negb (name_in l l1)) all) with (filter (fun l => negb (name_in l l2)) all)
    by (apply filter_ext; intro l; now rewrite E).
  replace (filter (fun l => name_in l l1) all) with (filter (fun l => name_in l l2) all)
    by (apply filter_ext; intro l; now rewrite E).
  reflexivity.
Qed.
Theorem get_overlap_request_is_a_set eps a l1 l2 : l1 <> [] -> l2 <> [] -> (forall x, In x l1 <-> In x l2) ->
  get_overlap_ann eps a (Some l1) = get_overlap_ann eps a (Some l2).
Proof.
  intros N1 N2 H. unfold get_overlap_ann. destruct l1 as [|x1 r1]; [congruence|]. destruct l2 as [|x2 r2]; [congruence|].
  now rewrite (subset_ann_request_is_a_set eps a (x1 :: r1) (x2 :: r2) false H).
Qed.
