(* C18: overlapping(t) is exactly the filter by the closed-interval test. *)
From PV Require Import Model.Timeline Proofs.SegmentP Proofs.SortedP.

Lemma filter_none {A} (f : A -> bool) l : (forall x, In x l -> f x = false) -> filter f l = [].
Proof.
  induction l as [|x l IH]; simpl; intro H; [reflexivity|].
  rewrite (H x (or_introl eq_refl)). apply IH. intros y Hy. apply H. now right.
Qed.

Theorem overlapping_spec t l :
  ssorted l -> overlapping t l = filter (fun s => overlaps s t) l.
Proof.
  induction l as [|s l IH]; simpl; intro H; [reflexivity|].
  apply ssorted_inv in H as [Hs F]. rewrite Forall_forall in F.
  destruct (st s >? t) eqn:E.
  - assert (Ho : overlaps s t = false) by (unfold overlaps; lia). rewrite Ho.
    symmetry. apply filter_none. intros y Hy. apply F, slt_st in Hy. unfold overlaps. lia.
  - rewrite (IH Hs). reflexivity.
Qed.

Corollary overlapping_exact t l s :
  ssorted l -> (In s (overlapping t l) <-> In s l /\ st s <= t <= en s).
Proof. intro H. rewrite (overlapping_spec t l H), filter_In, overlaps_iff. reflexivity. Qed.

(* a sublist of a strictly sorted list, in the same order *)
Lemma filter_ssorted f l : ssorted l -> ssorted (filter f l).
Proof. apply filter_sorted. Qed.

(* what the pre-repair query returned: it lost exactly the segments starting at t *)
Lemma irange_max_spec m l : ssorted l -> irange_max m l = filter (fun s => sleb s m) l.
Proof.
  induction l as [|s l IH]; simpl; intro H; [reflexivity|].
  apply ssorted_inv in H as [Hs F]. rewrite Forall_forall in F.
  destruct (sleb s m) eqn:E; [now rewrite (IH Hs)|].
  symmetry. apply filter_none. intros y Hy. apply F in Hy. unfold slt in Hy.
  unfold sleb in *. apply orb_false_iff in E as [E1 E2].
  apply orb_false_iff. split.
  - destruct (sltb y m) eqn:E3; [|reflexivity].
    rewrite (sltb_trans _ _ _ Hy E3) in E1. discriminate.
  - destruct (seqb y m) eqn:E3; [|reflexivity]. apply seqb_eq in E3. subst. congruence.
Qed.

Theorem overlapping_old_spec eps t l :
  0 <= eps -> ssorted l -> Forall (fun s => nonempty eps s = true) l ->
  overlapping_old t l = filter (fun s => (st s <? t) && (t <=? en s)) l.
Proof.
  intros He Hs Hn. unfold overlapping_old. rewrite (irange_max_spec _ _ Hs).
  rewrite Forall_forall in Hn. clear Hs.
  induction l as [|s l IH]; simpl; [reflexivity|].
  assert (Hl : forall y, In y l -> nonempty eps y = true) by (intros; apply Hn; now right).
  specialize (IH Hl). pose proof (Hn s (or_introl eq_refl)) as Hs.
  unfold nonempty in Hs.
  assert (E : sleb s (t, t) && overlaps s t = (st s <? t) && (t <=? en s)).
  { destruct s as [a b]. unfold sleb, sltb, seqb, overlaps, st, en in *; simpl in *. lia. }
  destruct (sleb s (t, t)) eqn:E1; simpl in *.
  - destruct (overlaps s t) eqn:E2; rewrite <- E; simpl; now rewrite IH.
  - rewrite <- E. exact IH.
Qed.

Theorem overlapping_old_refuted :
  exists l t s, ssorted l /\ In s l /\ st s <= t <= en s /\ ~ In s (overlapping_old t l).
Proof.
  exists [(1, 3)], 1, (1, 3). repeat split.
  - repeat constructor.
  - now left.
  - unfold st; simpl; lia.
  - unfold en; simpl; lia.
  - vm_compute. tauto.
Qed.
