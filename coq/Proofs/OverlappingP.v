(* C18: overlapping(t) is exactly the filter by the closed-interval test. *)
From PV Require Import Model.Timeline Proofs.SegmentP Proofs.SortedP.

Lemma filter_none {A} (f : A -> bool) l : (forall x, In x l -> f x = false) -> filter f l = [].
Proof.
  induction l as [|x l IH]; simpl; intro H; [reflexivity|].
  rewrite (H x (or_introl eq_refl)). apply IH. intros y Hy. apply H. now right.
Qed.

Theorem overlapping_spec t l :
  ssorted l -> overlapping t l = filter (fun s => overlaps s t) l.
Proof.
  induction l as [|s l IH]; simpl; intro H; [reflexivity|].
  apply ssorted_inv in H as [Hs F]. rewrite Forall_forall in F.
  destruct (st s >? t) eqn:E.
  - assert (Ho : overlaps s t = false) by (unfold overlaps; lia). rewrite Ho.
    symmetry. apply filter_none. intros y Hy. apply F, slt_st in Hy. unfold overlaps. lia.
  - rewrite (IH Hs). reflexivity.
Qed.

Corollary overlapping_exact t l s :
  ssorted l -> (In s (overlapping t l) <-> In s l /\ st s <= t <= en s).
Proof. intro H. rewrite (overlapping_spec t l H), filter_In, overlaps_iff. reflexivity. Qed.

(* a sublist of a strictly sorted list, in the same order *)
Lemma filter_ssorted f l : ssorted l -> ssorted (filter f l).
Proof. apply filter_sorted. Qed.

(* what the pre-repair query returned: it lost exactly the segments starting at t *)
Lemma irange_max_spec m l : ssorted l -> irange_max m l = filter (fun s => sleb s m) l.
Proof.
  induction l as [|s l IH]; simpl; intro H; [reflexivity|].
  apply ssorted_inv in H as [Hs F]. rewrite Forall_forall in F.
  destruct (sleb s m) eqn:E; [now rewrite (IH Hs)|].
  symmetry. apply filter_none. intros y Hy. apply F in Hy. unfold slt in Hy.
  unfold sleb in *. apply orb_false_iff in E as [E1 E2].
  apply orb_false_iff. split.
  - destruct (sltb y m) eqn:E3; [|reflexivity].
    rewrite (sltb_trans _ _ _ Hy E3) in E1. discriminate.
  - destruct (seqb y m) eqn:E3; [|reflexivity]. apply seqb_eq in E3. subst. congruence.
Qed.

Theorem overlapping_old_spec eps t l :
  0 <= eps -> ssorted l -> Forall (fun s => nonempty eps s = true) l ->
  overlapping_old t l = filter (fun s => (st s <? t) && (t <=? en s)) l.
Proof.
  intros He Hs Hn. unfold overlapping_old. rewrite (irange_max_spec _ _ Hs).
  rewrite Forall_forall in Hn. clear Hs.
  induction l as [|s l IH]; simpl; [reflexivity|].
  assert (Hl : forall y, In y l -> nonempty eps y = true) by (intros; apply Hn; now right).
  specialize (IH Hl). pose proof (Hn s (or_introl eq_refl)) as Hs.
  unfold nonempty in Hs.
  assert (E : sleb s (t, t) && overlaps s t = (st s <? t) && (t <=? en s)).
  { destruct s as [a b]. unfold sleb, sltb, seqb, overlaps, st, en in *; simpl in *. lia. }
  destruct (sleb s (t, t)) eqn:E1; simpl in *.
  - destruct (overlaps s t) eqn:E2; rewrite <- E; simpl; now rewrite IH.
  - rewrite <- E. exact IH.
Qed.

Theorem overlapping_old_refuted :
  exists l t s, ssorted l /\ In s l /\ st s <= t <= en s /\ ~ In s (overlapping_old t l).
Proof.
  exists [(1, 3)], 1, (1, 3). repeat split.
  - repeat constructor.
  - now left.
  - unfold st; simpl; lia.
  - unfold en; simpl; lia.
  - vm_compute. tauto.
Qed.

(* a time point between grid points: the query on k-fold refined coordinates (k > 0) answers the
   rational point q / k; on grid points it is the same query *)
Definition scale_seg (k : Z) (s : seg) : seg := (k * st s, k * en s).
Fixpoint overlapping_q (k q : Z) (l : list seg) : list seg :=
  match l with
  | [] => []
  | s :: r => if k * st s >? q then []
              else if (k * st s <=? q) && (q <=? k * en s) then s :: overlapping_q k q r else overlapping_q k q r
  end.
Theorem overlapping_scaled k q l :
  overlapping q (map (scale_seg k) l) = map (scale_seg k) (overlapping_q k q l).
Proof.
  induction l as [|s l IH]; cbn [map overlapping overlapping_q]; [reflexivity|].
  unfold overlaps. change (st (scale_seg k s)) with (k * st s). change (en (scale_seg k s)) with (k * en s).
  destruct (k * st s >? q); [reflexivity|].
  replace (k * en s >=? q) with (q <=? k * en s) by lia.
  destruct ((k * st s <=? q) && (q <=? k * en s)); cbn [map]; now rewrite IH.
Qed.
Theorem overlapping_q_exact k q l s : 0 < k -> ssorted l ->
  (In s (overlapping_q k q l) <-> In s l /\ k * st s <= q <= k * en s).
Proof.
  intros Hk. induction l as [|x l IH]; cbn [overlapping_q]; intro H; [simpl; tauto|].
  apply ssorted_inv in H as [Hs F]. rewrite Forall_forall in F.
  destruct (k * st x >? q) eqn:E.
  - split; [intros []|]. intros [[->|Hin] Hb]; [lia|]. apply F, slt_st in Hin. nia.
  - destruct ((k * st x <=? q) && (q <=? k * en x)) eqn:E2; cbn [In]; rewrite (IH Hs).
    + split; [intros [->|[A B]]; [split; [now left | lia] | split; [now right | exact B]] | intros [[->|A] B]; [now left | right; tauto]].
    + split; [intros [A B]; split; [now right | exact B] | intros [[->|A] B]; [lia | tauto]].
Qed.
Corollary overlapping_on_grid k t l : 0 < k -> overlapping_q k (k * t) l = overlapping t l.
Proof.
  intro Hk. induction l as [|s l IH]; cbn [overlapping overlapping_q]; [reflexivity|]. unfold overlaps.
  replace (k * st s >? k * t) with (st s >? t) by nia.
  replace ((k * st s <=? k * t) && (k * t <=? k * en s)) with ((st s <=? t) && (en s >=? t)) by nia.
  now rewrite IH.
Qed.
