(* C20, float side of to_squared:  i = int64(n - sqrt(-8k + 4n^2 - 4n + 1) / 2 - 1/2),  j = int64(i^2/2 - i n + 3i/2 + k + 1)
   evaluated in binary64 (Flocq's rounding on the reals, integer parts exact) return exactly the indices of the exact model
   for every n up to 2^20: at the first pair of a row every operation is exact; elsewhere the exact value keeps a distance
   of at least 2/(2n) from the integers while the accumulated rounding error is below 2^-21.  Real-number axioms. *)
From Coq Require Import Reals Lra Lia ZArith.
From Flocq Require Import Core Relative.
From PV Require Import Proofs.RoundFloatP.
Open Scope R_scope.

(* sqrt bounds by squaring *)
Lemma sqrt_le_of_sq d a : 0 <= a -> d <= a * a -> sqrt d <= a.
Proof.
  intros Ha H. destruct (Rle_or_lt 0 d) as [Hd|Hd].
  - rewrite <- (sqrt_square a Ha). now apply sqrt_le_1_alt.
  - rewrite sqrt_neg_0 by lra. exact Ha.
Qed.
Lemma sqrt_ge_of_sq d a : 0 <= a -> a * a <= d -> a <= sqrt d.
Proof.
  intros Ha H. rewrite <- (sqrt_square a Ha). now apply sqrt_le_1_alt.
Qed.

Section ToSquared.
Variables u eta : R.
Hypothesis Hu : 0 <= u.
Hypothesis Heta : 0 <= eta.
Variable rnd : R -> R.
Hypothesis rnd_spec : forall x, exists e t, Rabs e <= u /\ Rabs t <= eta /\ rnd x = x * (1 + e) + t.
(* the format represents half-integers below 2^53 exactly *)
Hypothesis rnd_half_int : forall z : Z, (Z.abs z < 2 ^ 53)%Z -> rnd (IZR z / 2) = IZR z / 2.

(* i = int(n - sqrt(D) / 2 - 1 / 2) as numpy computes it *)
Definition row_float (n D : Z) : Z := Zfloor (rnd (rnd (IZR n - rnd (rnd (sqrt (IZR D)) / 2)) - / 2)).

(* accumulated error of the four roundings when all magnitudes are below B *)
Lemma row_error (n D : Z) (B : R) : 1 <= B -> Rabs (IZR n) <= B -> sqrt (IZR D) <= B -> u <= / 8 ->
  Rabs (rnd (rnd (IZR n - rnd (rnd (sqrt (IZR D)) / 2)) - / 2) - (IZR n - sqrt (IZR D) / 2 - / 2))
  <= 9 * u * B + 6 * eta.
Proof.
  intros HB Hn Hs Hu8.
  pose proof (sqrt_pos (IZR D)) as Hs0. set (sD := sqrt (IZR D)) in *.
  destruct (rnd_spec sD) as [e1 [t1 [He1 [Ht1 E1]]]]. rewrite E1.
  set (s := sD * (1 + e1) + t1).
  destruct (rnd_spec (s / 2)) as [e2 [t2 [He2 [Ht2 E2]]]]. rewrite E2.
  set (h := s / 2 * (1 + e2) + t2).
  destruct (rnd_spec (IZR n - h)) as [e3 [t3 [He3 [Ht3 E3]]]]. rewrite E3.
  set (y1 := (IZR n - h) * (1 + e3) + t3).
  destruct (rnd_spec (y1 - / 2)) as [e4 [t4 [He4 [Ht4 E4]]]]. rewrite E4.
  apply Rabs_bounds in Hn.
  set (m1 := sD * e1). assert (B1 : Rabs m1 <= B * u) by (apply Rabs_mul_le; [rewrite Rabs_pos_eq; lra | exact He1]).
  assert (Bs : Rabs s <= B + B * u + eta).
  { apply Rabs_bounds in B1, Ht1. apply Rabs_le. unfold s. fold m1. replace (sD * (1 + e1) + t1) with (sD + m1 + t1) by (unfold m1; ring). lra. }
  set (m2 := s / 2 * e2).
  assert (B2 : Rabs m2 <= (B + B * u + eta) / 2 * u).
  { apply Rabs_mul_le; [|exact He2]. unfold Rdiv. rewrite Rabs_mult, (Rabs_pos_eq (/ 2)) by lra.
    apply Rmult_le_compat_r; [lra | exact Bs]. }
  assert (Eh : h = sD / 2 + (m1 / 2 + t1 / 2 + m2 + t2)) by (unfold h, m2, s, m1; field).
  set (dh := m1 / 2 + t1 / 2 + m2 + t2) in *.
  assert (0 <= B * u) by nra. assert (B * u * u <= B * u / 8) by nra. assert (eta * u <= eta / 8) by nra.
  assert (Bdh : Rabs dh <= 2 * u * B + 2 * eta).
  { apply Rabs_bounds in B1, B2, Ht1, Ht2. apply Rabs_le. unfold dh. lra. }
  assert (Bnh : Rabs (IZR n - h) <= 2 * B + 2 * u * B + 2 * eta).
  { rewrite Eh. apply Rabs_bounds in Bdh. apply Rabs_le. lra. }
  set (m3 := (IZR n - h) * e3).
  assert (B3 : Rabs m3 <= (2 * B + 2 * u * B + 2 * eta) * u) by (apply Rabs_mul_le; assumption).
  assert (Ey1 : y1 = IZR n - sD / 2 + (- dh + m3 + t3)) by (unfold y1, m3; rewrite Eh; ring).
  set (d1 := - dh + m3 + t3) in *.
  assert (Bd1 : Rabs d1 <= 5 * u * B + 4 * eta - eta / 2).
  { apply Rabs_bounds in Bdh, B3, Ht3. apply Rabs_le. unfold d1. lra. }
  assert (By1 : Rabs (y1 - / 2) <= 2 * B + / 2 + (5 * u * B + 4 * eta)).
  { rewrite Ey1. apply Rabs_bounds in Bd1. apply Rabs_le. lra. }
  set (m4 := (y1 - / 2) * e4).
  assert (B4 : Rabs m4 <= (2 * B + / 2 + (5 * u * B + 4 * eta)) * u) by (apply Rabs_mul_le; assumption).
  replace ((y1 - / 2) * (1 + e4) + t4 - (IZR n - sD / 2 - / 2)) with (d1 + m4 + t4) by (unfold m4; rewrite Ey1; ring).
  apply Rabs_bounds in Bd1, B4, Ht4. apply Rabs_le.
  assert (u * (u * B) <= u * B / 8) by nra. assert (u <= u * B) by nra.
  lra.
Qed.

(* the row index: M = 2n - 1 - 2i is the odd number with (M - 2)^2 < D <= M^2 *)
Theorem row_float_exact (n i M D : Z) :
  (M = 2 * n - 1 - 2 * i)%Z -> (3 <= M)%Z -> (0 <= i)%Z -> (n <= 2 ^ 20)%Z ->
  (D = M * M \/ ((M - 2) * (M - 2) + 8 <= D <= M * M - 8))%Z ->
  u <= bpow radix2 (-53) -> eta <= bpow radix2 (-1000) ->
  row_float n D = i.
Proof.
  intros HM H3 Hi Hn HD Hu53 Heta'. unfold row_float.
  assert (HMn : (M <= 2 ^ 21)%Z) by lia.
  destruct HD as [HD|[HD1 HD2]].
  - (* first pair of the row: every operation is exact *)
    subst D. rewrite mult_IZR, sqrt_square by (apply IZR_le; lia).
    replace (IZR M) with (IZR (2 * M) / 2) at 1 by (rewrite mult_IZR; field).
    rewrite rnd_half_int by lia. replace (IZR (2 * M) / 2) with (IZR M) by (rewrite mult_IZR; field).
    rewrite rnd_half_int by lia.
    replace (IZR n - IZR M / 2) with (IZR (2 * i + 1) / 2) by (subst M; rewrite !plus_IZR, !minus_IZR, !mult_IZR; simpl; field).
    rewrite rnd_half_int by lia.
    replace (IZR (2 * i + 1) / 2 - / 2) with (IZR (2 * i) / 2) by (rewrite plus_IZR, !mult_IZR; simpl; field).
    rewrite rnd_half_int by lia.
    replace (IZR (2 * i) / 2) with (IZR i) by (rewrite mult_IZR; field). apply Zfloor_IZR.
  - (* any other pair: the exact value is at least 2/M away from both ends of [i, i+1), the error is far smaller *)
    set (m := IZR M). assert (Hm3 : 3 <= m) by (apply IZR_le; exact H3).
    assert (Hm21 : m <= bpow radix2 21) by (change (bpow radix2 21) with (IZR (2 ^ 21)); apply IZR_le; exact HMn).
    assert (Im : 0 < / m) by (apply Rinv_0_lt_compat; lra).
    assert (Em : m * / m = 1) by (apply Rinv_r; lra).
    set (w := / m) in *.
    assert (Hw : bpow radix2 (-21) <= w).
    { unfold w. replace (bpow radix2 (-21)) with (/ bpow radix2 21) by (rewrite <- bpow_opp; reflexivity).
      apply Rinv_le_contravar; lra. }
    assert (HDr1 : (m - 2) * (m - 2) + 8 <= IZR D).
    { unfold m. rewrite <- minus_IZR, <- mult_IZR, <- plus_IZR. apply IZR_le. exact HD1. }
    assert (HDr2 : IZR D <= m * m - 8).
    { unfold m. rewrite <- mult_IZR, <- minus_IZR. apply IZR_le. exact HD2. }
    assert (S1 : sqrt (IZR D) <= m - 4 * w).
    { apply sqrt_le_of_sq; [nra|]. nra. }
    assert (S2 : m - 2 + 4 * w <= sqrt (IZR D)).
    { apply sqrt_ge_of_sq; [nra|]. nra. }
    set (y := IZR n - sqrt (IZR D) / 2 - / 2).
    assert (En : IZR n = IZR i + m / 2 + / 2) by (unfold m; subst M; rewrite !minus_IZR, !mult_IZR; simpl; field).
    assert (Y1 : IZR i + 2 * w <= y) by (unfold y; lra).
    assert (Y2 : y <= IZR i + 1 - 2 * w) by (unfold y; lra).
    assert (HB : Rabs (IZR n) <= bpow radix2 21).
    { rewrite <- abs_IZR. change (bpow radix2 21) with (IZR (2 ^ 21)). apply IZR_le. lia. }
    assert (HsB : sqrt (IZR D) <= bpow radix2 21) by lra.
    assert (HB1 : 1 <= bpow radix2 21) by (change 1 with (bpow radix2 0); apply bpow_le; lia).
    assert (Hu8 : u <= / 8) by (apply Rle_trans with (bpow radix2 (-53)); [exact Hu53 | apply Rle_trans with (bpow radix2 (-3)); [apply bpow_le; lia | simpl; lra]]).
    pose proof (row_error n D (bpow radix2 21) HB1 HB HsB Hu8) as Err. fold y in Err.
    assert (Small : 9 * u * bpow radix2 21 + 6 * eta < bpow radix2 (-21)).
    { assert (u * bpow radix2 21 <= bpow radix2 (-32)).
      { replace (bpow radix2 (-32)) with (bpow radix2 (-53) * bpow radix2 21) by (rewrite <- bpow_plus; reflexivity).
        apply Rmult_le_compat_r; [apply bpow_ge_0 | exact Hu53]. }
      assert (bpow radix2 (-32) <= bpow radix2 (-21) / 32).
      { replace (bpow radix2 (-21)) with (bpow radix2 (-32) * bpow radix2 11) by (rewrite <- bpow_plus; reflexivity). simpl (bpow radix2 11). pose proof (bpow_gt_0 radix2 (-32)). lra. }
      assert (eta <= bpow radix2 (-21) / 32).
      { apply Rle_trans with (bpow radix2 (-1000)); [exact Heta'|].
        replace (bpow radix2 (-21)) with (bpow radix2 (-26) * bpow radix2 5) by (rewrite <- bpow_plus; reflexivity). simpl (bpow radix2 5).
        apply Rle_trans with (bpow radix2 (-26)); [apply bpow_le; lia | pose proof (bpow_gt_0 radix2 (-26)); lra]. }
      pose proof (bpow_gt_0 radix2 (-21)). lra. }
    apply Rabs_bounds in Err.
    apply Zfloor_imp. rewrite plus_IZR. simpl (IZR 1). lra.
Qed.
End ToSquared.


(* ---- binary64 instance and the link with the exact model ---- *)
From PV Require Import Model.Condensed Proofs.CondensedP.
Local Open Scope R_scope.

Lemma rnd64_half_int z : (Z.abs z < 2 ^ 53)%Z -> rnd64 (IZR z / 2) = IZR z / 2.
Proof.
  intro Hz. unfold rnd64. apply round_generic; [apply valid_rnd_N|].
  apply generic_format_FLT. exists (Float radix2 z (-1)).
  - unfold F2R. cbn [Fnum Fexp]. change (bpow radix2 (-1)) with (/ 2). reflexivity.
  - simpl. lia.
  - simpl. lia.
Qed.

Lemma row_discriminant n i j : (0 <= i)%Z -> (i < j)%Z -> (j < n)%Z ->
  let D := (4 * n * n - 4 * n + 1 - 8 * kidx n i j)%Z in
  let M := (2 * n - 1 - 2 * i)%Z in
  (3 <= M)%Z /\ (D = M * M \/ ((M - 2) * (M - 2) + 8 <= D <= M * M - 8))%Z.
Proof.
  intros Hi Hij Hjn D M.
  assert (Hk : (2 * kidx n i j = 2 * i * n - i * (i + 3) + 2 * j - 2)%Z) by (unfold kidx; pose proof (T_double i); lia).
  assert (E : (M * M - D = 8 * (j - i - 1))%Z) by (unfold D, M; nia).
  assert (E2 : (D - (M - 2) * (M - 2) = 8 * (n - j))%Z) by (unfold D, M; nia).
  split; [unfold M; lia|].
  destruct (Z.eq_dec j (i + 1)) as [->|Hne]; [left; lia | right; lia].
Qed.

(* the float computation of the row index of to_squared is exact for every n up to 2^20 (about a million items) *)
Theorem binary64_to_squared_row_exact n i j : (0 <= i)%Z -> (i < j)%Z -> (j < n)%Z -> (n <= 2 ^ 20)%Z ->
  row_float rnd64 n (4 * n * n - 4 * n + 1 - 8 * kidx n i j) = fst (to_squared n (kidx n i j)).
Proof.
  intros Hi Hij Hjn Hn. rewrite (squared_of_condensed n i j Hi Hij Hjn). simpl fst.
  destruct (row_discriminant n i j Hi Hij Hjn) as [H3 HD].
  apply (row_float_exact u64 eta64) with (M := (2 * n - 1 - 2 * i)%Z); auto.
  - unfold u64. apply bpow_ge_0.
  - unfold eta64. apply bpow_ge_0.
  - apply rnd64_spec.
  - apply rnd64_half_int.
  - unfold u64. apply Rle_refl.
  - unfold eta64. apply bpow_le. lia.
Qed.

(* the column index  j = int(i**2 / 2 - i*n + 3*i / 2 + k + 1): every intermediate value is a half-integer below 2^53,
   so nothing is rounded *)
Definition col_float (n k i : Z) : R :=
  rnd64 (rnd64 (rnd64 (rnd64 (rnd64 (IZR (i * i) / 2) - IZR (i * n)) + rnd64 (IZR (3 * i) / 2)) + IZR k) + 1).
Theorem binary64_to_squared_col_exact n i j : (0 <= i)%Z -> (i < j)%Z -> (j < n)%Z -> (n <= 2 ^ 20)%Z ->
  col_float n (kidx n i j) i = IZR (snd (to_squared n (kidx n i j))).
Proof.
  intros Hi Hij Hjn Hn. rewrite (squared_of_condensed n i j Hi Hij Hjn). simpl snd.
  set (k := kidx n i j).
  assert (Hk : (2 * k = 2 * i * n - i * (i + 3) + 2 * j - 2)%Z) by (unfold k, kidx; pose proof (T_double i); lia).
  assert (Bi : (i * i < 2 ^ 40)%Z) by nia. assert (Bin : (0 <= i * n < 2 ^ 40)%Z) by nia.
  assert (Bk : (0 <= 2 * k < 2 ^ 42)%Z) by nia.
  unfold col_float.
  rewrite rnd64_half_int by lia.
  replace (IZR (i * i) / 2 - IZR (i * n)) with (IZR (i * i - 2 * (i * n)) / 2) by (rewrite minus_IZR, (mult_IZR 2); field).
  rewrite rnd64_half_int by lia.
  rewrite (rnd64_half_int (3 * i)) by lia.
  replace (IZR (i * i - 2 * (i * n)) / 2 + IZR (3 * i) / 2) with (IZR (i * i - 2 * (i * n) + 3 * i) / 2) by (rewrite (plus_IZR _ (3 * i)); field).
  rewrite rnd64_half_int by lia.
  replace (IZR (i * i - 2 * (i * n) + 3 * i) / 2 + IZR k) with (IZR (i * i - 2 * (i * n) + 3 * i + 2 * k) / 2) by (rewrite (plus_IZR _ (2 * k)), (mult_IZR 2 k); field).
  rewrite rnd64_half_int by lia.
  replace (IZR (i * i - 2 * (i * n) + 3 * i + 2 * k) / 2 + 1) with (IZR (2 * j) / 2).
  - rewrite rnd64_half_int by lia. rewrite mult_IZR. field.
  - replace (i * i - 2 * (i * n) + 3 * i + 2 * k)%Z with (2 * j - 2)%Z by lia. rewrite minus_IZR, !mult_IZR. field.
Qed.
