(* C06 for every time precision eps >= 0 (eps = 4 ticks is the library default of one microsecond in regime K4):
   gaps(S) against the merged crop c = support(crop(t, S)).  With a precision the exact complement of GapsP.v
   cannot hold - a hole no longer than eps is an EMPTY segment for the library and is not reported - so the
   statements are: every reported gap is longer than eps, lies inside S and is disjoint from every piece of c
   (soundness, exact); every time point of S is in c, in a reported gap, or in a sliver no longer than eps that
   is bounded by pieces of c or the ends of S (completeness up to eps); gaps are reported in order, more than
   eps apart... no: pairwise disjoint and sorted.  At eps = 0 there are no slivers and this is GapsP's partition. *)
From PV Require Import Model.Timeline Proofs.SegmentP Proofs.SortedP Proofs.TimelineInvP
  Proofs.OverlappingP Proofs.SupportP Proofs.CropP Proofs.GapsP.

Section GapsEps.
Variable eps : Z.
Hypothesis Heps : 0 <= eps.

(* pieces longer than eps, consecutive ones more than eps apart: what support(., collar = 0) returns *)
Definition apart (c : list seg) : Prop := separated eps 0 c /\ Forall (ne eps) c.

Lemma th0 : th eps 0 = eps.
Proof. unfold th. lia. Qed.

Lemma apart_tail s r : apart (s :: r) -> apart r.
Proof.
  intros [Hs Hn]. split; [now apply separated_tail in Hs | now inversion Hn].
Qed.
Lemma apart_head s r : apart (s :: r) -> en s - st s > eps.
Proof. intros [_ Hn]. inversion Hn as [|? ? H _]; subst. now apply ne_gt in H. Qed.
Lemma apart_lb s r : apart (s :: r) -> forall b, In b r -> st b - en s > eps.
Proof.
  intros [Hs Hn] b Hb. pose proof (separated_pairwise eps 0 Heps _ Hs Hn s r eq_refl) as P.
  rewrite Forall_forall in P. specialize (P b Hb). rewrite th0 in P. exact P.
Qed.
Lemma apart_pos c s : apart c -> In s c -> en s - st s > eps.
Proof. intros [_ Hn] Hs. rewrite Forall_forall in Hn. apply ne_gt. now apply Hn. Qed.

Lemma support_apart l : wf eps l -> apart (support eps 0 l).
Proof.
  intro H. rewrite (support_is_support_iter eps 0 Heps l H). exact (support_iter_separated eps 0 Heps l H).
Qed.

Lemma within_tail_eps e stop s r : apart (s :: r) -> within e stop (s :: r) -> within (en s) stop r.
Proof.
  intros Ha Hw b Hb. pose proof (apart_lb s r Ha b Hb). destruct (Hw b (or_intror Hb)). lia.
Qed.

Lemma gaps_go_nil_eps e stop :
  gaps_go eps e stop [] = if nonempty eps (e, stop) then [(e, stop)] else [].
Proof. reflexivity. Qed.
Lemma gaps_go_cons_eps e stop s r :
  gaps_go eps e stop (s :: r) =
    if nonempty eps (e, st s) then (e, st s) :: gaps_go eps (en s) stop r else gaps_go eps (en s) stop r.
Proof. reflexivity. Qed.

(* soundness: each reported gap is a real, non-empty hole of [e, stop] *)
Lemma gaps_go_sound c : forall e stop,
  apart c -> within e stop c ->
  forall g, In g (gaps_go eps e stop c) ->
    en g - st g > eps /\ e <= st g /\ en g <= stop /\
    (forall s, In s c -> en g <= st s \/ en s <= st g).
Proof.
  induction c as [|s r IH]; intros e stop Ha Hw g Hg.
  - rewrite gaps_go_nil_eps in Hg. destruct (nonempty eps (e, stop)) eqn:E; [|contradiction].
    destruct Hg as [<-|[]]. unfold nonempty in E. pairs. repeat split; try lia. intros s [].
  - rewrite gaps_go_cons_eps in Hg. destruct (Hw s (or_introl eq_refl)) as [Hes Hss].
    pose proof (apart_head s r Ha) as Hpos. pose proof (apart_lb s r Ha) as Hlb.
    assert (Q : In g (gaps_go eps (en s) stop r) ->
                en g - st g > eps /\ e <= st g /\ en g <= stop /\
                (forall x, In x (s :: r) -> en g <= st x \/ en x <= st g)).
    { intro I. destruct (IH (en s) stop (apart_tail s r Ha) (within_tail_eps e stop s r Ha Hw) g I) as [A [B [C D]]].
      repeat split; try lia. intros x [<-|Hx]; [right; lia | now apply D]. }
    destruct (nonempty eps (e, st s)) eqn:E; [|now apply Q].
    destruct Hg as [<-|Hg]; [|now apply Q].
    unfold nonempty in E. pairs. repeat split; try lia.
    intros x [<-|Hx]; [left; lia | left; specialize (Hlb x Hx); lia].
Qed.

(* the residue: a stretch no longer than eps between the end of a piece (or the start of the region)
   and the start of the next piece (or the end of the region) *)
Definition sliver (e stop : Z) (c : list seg) (k : Z) : Prop :=
  exists a b, a <= k < b /\ b - a <= eps /\
              (a = e \/ exists s, In s c /\ a = en s) /\ (b = stop \/ exists s, In s c /\ b = st s).

(* completeness up to eps *)
Lemma gaps_go_complete c : forall e stop,
  apart c -> within e stop c ->
  forall k, e <= k < stop ->
    covers_cell c k \/ covers_cell (gaps_go eps e stop c) k \/ sliver e stop c k.
Proof.
  induction c as [|s r IH]; intros e stop Ha Hw k Hk.
  - rewrite gaps_go_nil_eps. destruct (nonempty eps (e, stop)) eqn:E.
    + right; left. exists (e, stop). split; [now left | pairs; lia].
    + right; right. exists e, stop. unfold nonempty in E. pairs.
      split; [lia|]. split; [lia|]. split; now left.
  - rewrite gaps_go_cons_eps. destruct (Hw s (or_introl eq_refl)) as [Hes Hss].
    destruct (Z_lt_ge_dec k (st s)) as [L1|G1].
    + destruct (nonempty eps (e, st s)) eqn:E.
      * right; left. exists (e, st s). split; [now left | pairs; lia].
      * right; right. exists e, (st s). unfold nonempty in E. pairs.
        split; [lia|]. split; [lia|]. split; [now left | right; exists s; split; [now left | reflexivity]].
    + destruct (Z_lt_ge_dec k (en s)) as [L2|G2].
      * left. exists s. split; [now left | lia].
      * destruct (IH (en s) stop (apart_tail s r Ha) (within_tail_eps e stop s r Ha Hw) k ltac:(lia))
          as [[x [Ix Hx]]|[[g [Ig Hgk]]|[a [b [Hab [Hlen [Hl Hr]]]]]]].
        -- left. exists x. split; [now right | assumption].
        -- right; left. exists g. split; [|assumption].
           destruct (nonempty eps (e, st s)); [now right | assumption].
        -- right; right. exists a, b. split; [lia|]. split; [lia|]. split.
           ++ right. destruct Hl as [->|[x [Ix ->]]]; [exists s; split; [now left | reflexivity] | exists x; split; [now right | reflexivity]].
           ++ destruct Hr as [->|[x [Ix ->]]]; [now left | right; exists x; split; [now right | reflexivity]].
Qed.

(* reported gaps are in order and do not touch: each ends where a piece starts, the next begins where it ends *)
Lemma gaps_go_sorted c : forall e stop,
  apart c -> within e stop c -> ssorted (gaps_go eps e stop c).
Proof.
  induction c as [|s r IH]; intros e stop Ha Hw.
  - rewrite gaps_go_nil_eps. destruct (nonempty eps (e, stop)); [apply ssorted_cons; [constructor | constructor] | constructor].
  - rewrite gaps_go_cons_eps. destruct (Hw s (or_introl eq_refl)) as [Hes Hss].
    pose proof (IH (en s) stop (apart_tail s r Ha) (within_tail_eps e stop s r Ha Hw)) as IHs.
    destruct (nonempty eps (e, st s)) eqn:E; [|exact IHs].
    apply ssorted_cons; [exact IHs|]. rewrite Forall_forall. intros g Hg.
    destruct (gaps_go_sound r (en s) stop (apart_tail s r Ha) (within_tail_eps e stop s r Ha Hw) g Hg) as [_ [B _]].
    pose proof (apart_head s r Ha). unfold slt. apply sltb_lex. left. unfold nonempty in E. pairs. lia.
Qed.

Lemma gaps_go_nonempty c : forall e stop,
  apart c -> within e stop c -> Forall (fun g => nonempty eps g = true) (gaps_go eps e stop c).
Proof.
  intros e stop Ha Hw. rewrite Forall_forall. intros g Hg.
  destruct (gaps_go_sound c e stop Ha Hw g Hg) as [A _]. unfold nonempty. lia.
Qed.

(* consecutive reported gaps are more than eps apart: a piece of c, longer than eps, lies between them *)
Lemma gaps_go_separated c : forall e stop,
  apart c -> within e stop c -> separated eps 0 (gaps_go eps e stop c).
Proof.
  induction c as [|s r IH]; intros e stop Ha Hw.
  - rewrite gaps_go_nil_eps. destruct (nonempty eps (e, stop)); exact I.
  - rewrite gaps_go_cons_eps.
    pose proof (IH (en s) stop (apart_tail s r Ha) (within_tail_eps e stop s r Ha Hw)) as IHs.
    destruct (nonempty eps (e, st s)) eqn:E; [|exact IHs].
    destruct (gaps_go eps (en s) stop r) as [|g rest] eqn:Eg; [exact I|].
    split; [|exact IHs].
    assert (Ig : In g (gaps_go eps (en s) stop r)) by (rewrite Eg; now left).
    destruct (gaps_go_sound r (en s) stop (apart_tail s r Ha) (within_tail_eps e stop s r Ha Hw) g Ig) as [_ [B _]].
    pose proof (apart_head s r Ha). rewrite th0. pairs. lia.
Qed.

(* ---------- gaps of a timeline within a Segment support ---------- *)
Variable t : list seg.
Hypothesis Ht : wf eps t.

Definition merged_crop (x : seg) : list seg := support eps 0 (crop eps t (SupSeg x) Inter).

Lemma merged_crop_apart x : apart (merged_crop x).
Proof. apply support_apart, crop_wf. Qed.

Lemma norm_support_seg x : nonempty eps x = true -> norm_support eps (SupSeg x) = [x].
Proof.
  intro Ex. simpl. rewrite Ex.
  assert (T : tl_of eps [x] = [x]).
  { apply tl_of_id; [apply ssorted_cons; constructor | now constructor]. }
  rewrite T. rewrite (support_is_support_iter eps 0 Heps) by (rewrite <- T; apply wf_tl_of).
  unfold support_iter. rewrite (support_go_unfold eps 0 Heps x x []) by (unfold ne; auto; lia).
  rewrite th0. pose proof Ex as Ex'. unfold nonempty in Ex'.
  replace (st x - en x <=? eps) with true by lia. simpl.
  destruct x as [a b]. unfold st, en in *; simpl in *. f_equal. f_equal. lia.
Qed.

Lemma crop_piece_within x y : In y (crop eps t (SupSeg x) Inter) -> st x <= st y /\ en y <= en x.
Proof.
  intro Hy. apply (crop_inter_spec eps Heps t Ht) in Hy as [a [r [Ha [Hr [-> Hne]]]]].
  destruct (nonempty eps x) eqn:Ex.
  - rewrite (norm_support_seg x Ex) in Hr. destruct Hr as [<-|[]]. unfold sand, st, en; simpl. lia.
  - simpl in Hr. rewrite Ex in Hr. change (tl_of eps []) with (@nil seg) in Hr. contradiction.
Qed.

Lemma merged_crop_within x : within (st x) (en x) (merged_crop x).
Proof.
  intros o Ho. unfold merged_crop in Ho.
  rewrite (support_is_support_iter eps 0 Heps) in Ho by apply crop_wf.
  destruct (support_iter_bounds eps 0 Heps _ o (crop_wf eps t (SupSeg x) Inter) Ho) as [[a [Ia Ea]] [b [Ib Eb]]].
  destruct (crop_piece_within x a Ia), (crop_piece_within x b Ib). lia.
Qed.

Theorem gaps_seg_is_timeline x : tl_of eps (gaps_seg eps t x) = gaps_seg eps t x.
Proof.
  unfold gaps_seg. apply tl_of_id.
  - apply gaps_go_sorted; [apply merged_crop_apart | apply merged_crop_within].
  - apply gaps_go_nonempty; [apply merged_crop_apart | apply merged_crop_within].
Qed.

Theorem gaps_segment_sound x g : In g (gaps eps t (Some (SupSeg x))) ->
  en g - st g > eps /\ st x <= st g /\ en g <= en x /\
  (forall s, In s (merged_crop x) -> en g <= st s \/ en s <= st g).
Proof.
  unfold gaps, gaps_iter. rewrite gaps_seg_is_timeline. unfold gaps_seg. fold (merged_crop x).
  apply gaps_go_sound; [apply merged_crop_apart | apply merged_crop_within].
Qed.

Theorem gaps_segment_complete x k : st x <= k < en x ->
  covers_cell (merged_crop x) k \/ covers_cell (gaps eps t (Some (SupSeg x))) k
  \/ sliver (st x) (en x) (merged_crop x) k.
Proof.
  unfold gaps, gaps_iter. rewrite gaps_seg_is_timeline. unfold gaps_seg. fold (merged_crop x).
  apply gaps_go_complete; [apply merged_crop_apart | apply merged_crop_within].
Qed.

(* every annotated stretch of S that survives the crop (longer than eps) is inside the merged crop,
   hence in no reported gap *)
Theorem gaps_segment_avoids_members x g a k :
  In g (gaps eps t (Some (SupSeg x))) -> In a t -> nonempty eps (sand a x) = true ->
  Z.max (st a) (st x) <= k < Z.min (en a) (en x) -> ~ (st g <= k < en g).
Proof.
  intros Hg Ha Hne Hk Hgk.
  destruct (gaps_segment_sound x g Hg) as [_ [_ [_ D]]].
  assert (Hx : nonempty eps x = true).
  { unfold nonempty, sand, st, en in *; simpl in *. lia. }
  assert (Iy : In (sand a x) (crop eps t (SupSeg x) Inter)).
  { apply (crop_inter_spec eps Heps t Ht). exists a, x. repeat split; auto.
    rewrite (norm_support_seg x Hx). now left. }
  destruct (support_iter_includes eps 0 Heps _ (sand a x) (crop_wf eps t (SupSeg x) Inter) Iy) as [o [Io So]].
  apply sin_iff in So.
  assert (Io' : In o (merged_crop x)).
  { unfold merged_crop. rewrite (support_is_support_iter eps 0 Heps) by apply crop_wf. exact Io. }
  destruct (D o Io'); unfold sand, st, en in *; simpl in *; lia.
Qed.

(* ---------- a Timeline support: region by region over its merged support ---------- *)
Theorem gaps_timeline_sound l g : In g (gaps eps t (Some (SupTl l))) ->
  exists r, In r (support eps 0 l) /\
    en g - st g > eps /\ st r <= st g /\ en g <= en r /\
    (forall s, In s (merged_crop r) -> en g <= st s \/ en s <= st g).
Proof.
  unfold gaps, gaps_iter. rewrite tl_of_In. intros [Hg _]. apply in_flat_map in Hg as [r [Hr Hg]].
  exists r. split; [exact Hr|]. unfold gaps_seg in Hg. fold (merged_crop r) in Hg.
  apply (gaps_go_sound (merged_crop r) (st r) (en r) (merged_crop_apart r) (merged_crop_within r) g Hg).
Qed.

Theorem gaps_timeline_complete l r k : In r (support eps 0 l) -> st r <= k < en r ->
  covers_cell (merged_crop r) k \/ covers_cell (gaps eps t (Some (SupTl l))) k
  \/ sliver (st r) (en r) (merged_crop r) k.
Proof.
  intros Hr Hk.
  destruct (gaps_go_complete (merged_crop r) (st r) (en r) (merged_crop_apart r) (merged_crop_within r) k Hk)
    as [H|[[g [Ig Hgk]]|H]]; [now left | | now right; right].
  right; left. exists g. split; [|exact Hgk]. unfold gaps, gaps_iter. apply tl_of_In. split.
  - apply in_flat_map. exists r. split; [exact Hr | exact Ig].
  - destruct (gaps_go_sound (merged_crop r) (st r) (en r) (merged_crop_apart r) (merged_crop_within r) g Ig) as [A _].
    unfold nonempty. lia.
Qed.

(* the gaps within a Segment support are a fixed point of support(): they are their own regions *)
Theorem gaps_segment_apart x : apart (gaps eps t (Some (SupSeg x))).
Proof.
  unfold gaps, gaps_iter. rewrite gaps_seg_is_timeline. unfold gaps_seg. fold (merged_crop x). split.
  - apply gaps_go_separated; [apply merged_crop_apart | apply merged_crop_within].
  - rewrite Forall_forall. intros g Hg.
    destruct (gaps_go_sound (merged_crop x) (st x) (en x) (merged_crop_apart x) (merged_crop_within x) g Hg) as [A _].
    unfold ne, nonempty. lia.
Qed.
Theorem gaps_segment_regions x :
  norm_support eps (SupTl (gaps eps t (Some (SupSeg x)))) = gaps eps t (Some (SupSeg x)).
Proof.
  simpl. destruct (gaps_segment_apart x) as [A B].
  rewrite (support_is_support_iter eps 0 Heps) by apply wf_tl_of.
  now apply support_iter_fixed.
Qed.

(* covers(other), any precision: no reported gap of the timeline within other's extent intersects a member of other *)
Theorem covers_eps_spec o : wf eps o ->
  (covers eps t o = true <->
   forall g x, In g (gaps eps t (Some (SupSeg (extent_l o)))) -> In x o -> intersects eps g x = false).
Proof.
  intro Ho. unfold covers. set (G := gaps eps t (Some (SupSeg (extent_l o)))).
  assert (HG : wf eps G) by apply wf_tl_of.
  destruct (co_iter eps G o) as [|[a b] rest] eqn:E.
  - split; [|reflexivity]. intros _ g x Hg Hx. destruct (intersects eps g x) eqn:Ei; [|reflexivity].
    assert (In (g, x) (co_iter eps G o)) by (apply (co_iter_In eps Heps G o g x HG Ho); auto).
    rewrite E in H. contradiction.
  - split; [discriminate|]. intro H. exfalso.
    assert (Iab : In (a, b) (co_iter eps G o)) by (rewrite E; now left).
    apply (co_iter_In eps Heps G o a b HG Ho) in Iab as [Ia [Ib Hi]].
    rewrite (H a b Ia Ib) in Hi. discriminate.
Qed.

(* without a support the extent is used *)
Lemma gaps_default_eps : gaps eps t None = gaps eps t (Some (SupSeg (extent_l t))).
Proof. reflexivity. Qed.

End GapsEps.

(* ---------- extrude, every precision: crop on the reported gaps of `removed` within the extent, loose / strict swapped ---------- *)
Section ExtrudeEps.
Variable eps : Z.
Hypothesis Heps : 0 <= eps.
Variable t : list seg.
Hypothesis Ht : wf eps t.
Hypothesis Hne : t <> [].
Variable R : sup.
Hypothesis HR : match R with SupSeg _ => True | SupTl l => wf eps l end.

Definition removed_of : list seg := match R with SupSeg x => tl_of eps [x] | SupTl l => l end.
(* what is left of the extent once `removed` is taken out, as the library sees it *)
Definition kept_regions : list seg := gaps eps removed_of (Some (SupSeg (extent_l t))).

Lemma removed_of_wf : wf eps removed_of.
Proof. unfold removed_of. destruct R; [apply wf_tl_of | exact HR]. Qed.

Lemma extent_nonempty : nonempty eps (extent_l t) = true.
Proof.
  destruct t as [|s r]; [contradiction|]. destruct Ht as [_ F]. inversion F as [|? ? Hs _]; subst.
  unfold extent_l. destruct (max_end_ge r (en s)) as [M _]. unfold nonempty in *. pairs. lia.
Qed.

Lemma extrude_is_crop m : extrude eps t R m = crop eps t (SupTl kept_regions) (swap_mode m).
Proof.
  unfold extrude. fold removed_of. f_equal. f_equal. unfold kept_regions, gaps, gaps_iter.
  pose proof (norm_support_seg eps Heps (extent_l t) extent_nonempty) as N. simpl in N.
  rewrite extent_nonempty in N. rewrite N. simpl. now rewrite app_nil_r.
Qed.

Lemma kept_regions_norm : norm_support eps (SupTl kept_regions) = kept_regions.
Proof. apply (gaps_segment_regions eps Heps removed_of removed_of_wf). Qed.

(* intersection mode: exactly the non-empty pieces member & kept region *)
Theorem extrude_inter_eps y :
  In y (extrude eps t R Inter) <->
  exists x g, In x t /\ In g kept_regions /\ y = sand x g /\ nonempty eps y = true.
Proof.
  rewrite extrude_is_crop. simpl swap_mode. rewrite (crop_inter_spec eps Heps t Ht), kept_regions_norm. reflexivity.
Qed.
(* loose mode keeps exactly the members lying inside one kept region (nothing of them is removed) *)
Theorem extrude_loose_eps x :
  In x (extrude eps t R Loose) <-> In x t /\ exists g, In g kept_regions /\ sin g x = true.
Proof.
  rewrite extrude_is_crop. simpl swap_mode. rewrite (crop_strict_spec eps Heps t Ht), kept_regions_norm. reflexivity.
Qed.
(* strict mode keeps exactly the members that intersect a kept region (something of them is left) *)
Theorem extrude_strict_eps x :
  In x (extrude eps t R Strict) <-> In x t /\ exists g, In g kept_regions /\ intersects eps x g = true.
Proof.
  rewrite extrude_is_crop. simpl swap_mode. rewrite (crop_loose_spec eps Heps t Ht), kept_regions_norm. reflexivity.
Qed.
(* and the kept regions are what C06_eps_gaps_* describe: longer than eps, inside the extent, disjoint from the
   merged `removed` *)
Theorem kept_regions_sound g : In g kept_regions ->
  en g - st g > eps /\ st (extent_l t) <= st g /\ en g <= en (extent_l t) /\
  (forall s, In s (merged_crop eps removed_of (extent_l t)) -> en g <= st s \/ en s <= st g).
Proof. apply (gaps_segment_sound eps Heps removed_of removed_of_wf). Qed.
End ExtrudeEps.

(* at eps = 0 a sliver is empty: the partition of GapsP *)
Lemma no_sliver_at_zero e stop c k : ~ sliver 0 e stop c k.
Proof. intros [a [b [H1 [H2 _]]]]. lia. Qed.

