(* Python-dict and SortedDict models: lookup/update laws. *)
From PV Require Import Model.Annotation Proofs.SegmentP Proofs.SortedP.

Lemma name_eqb_eq a b : name_eqb a b = true <-> a = b.
Proof.
  destruct a, b; simpl; split; intro H; try discriminate; try (inversion H; subst).
  - f_equal. lia.
  - lia.
  - f_equal. now apply String.eqb_eq.
  - apply String.eqb_refl.
Qed.
Lemma name_eqb_refl a : name_eqb a a = true.
Proof. now apply name_eqb_eq. Qed.
Lemma name_eqb_neq a b : name_eqb a b = false <-> a <> b.
Proof.
  split.
  - intros H E. subst. rewrite name_eqb_refl in H. discriminate.
  - intro H. destruct (name_eqb a b) eqn:E; [apply name_eqb_eq in E; contradiction | reflexivity].
Qed.
Lemma name_dec (a b : name) : {a = b} + {a <> b}.
Proof. destruct (name_eqb a b) eqn:E; [left; now apply name_eqb_eq | right; now apply name_eqb_neq]. Qed.

Section NMapLaws.
Context {V : Type}.
Implicit Types m : list (name * V).
Definition keys m : list name := map fst m.

Lemma nm_get_set_same k v m : nm_get k (nm_set k v m) = Some v.
Proof.
  induction m as [|[k' v'] m IH]; simpl; [now rewrite name_eqb_refl|].
  destruct (name_eqb k k') eqn:E; simpl; rewrite E; [reflexivity | exact IH].
Qed.
Lemma nm_get_set_other k k' v m : k' <> k -> nm_get k' (nm_set k v m) = nm_get k' m.
Proof.
  intro H. induction m as [|[k0 v0] m IH]; simpl.
  - apply name_eqb_neq in H. now rewrite H.
  - destruct (name_eqb k k0) eqn:E; simpl.
    + apply name_eqb_eq in E. subst k0. apply name_eqb_neq in H. now rewrite H.
    + destruct (name_eqb k' k0); [reflexivity | exact IH].
Qed.
Lemma nm_set_keys_In k v m x : In x (keys (nm_set k v m)) <-> x = k \/ In x (keys m).
Proof.
  unfold keys. induction m as [|[k0 v0] m IH]; simpl; [intuition|].
  destruct (name_eqb k k0) eqn:E; simpl.
  - apply name_eqb_eq in E. subst. intuition.
  - rewrite IH. intuition.
Qed.
Lemma nm_set_NoDup k v m : NoDup (keys m) -> NoDup (keys (nm_set k v m)).
Proof.
  unfold keys. induction m as [|[k0 v0] m IH]; simpl; intro H; [constructor; [intros []|constructor]|].
  inversion H as [|? ? Hn Hd]; subst. destruct (name_eqb k k0) eqn:E; simpl.
  - now constructor.
  - constructor; [|now apply IH]. intro I. fold (keys (nm_set k v m)) in I. apply nm_set_keys_In in I as [->|I].
    + rewrite name_eqb_refl in E. discriminate.
    + contradiction.
Qed.
Lemma nm_get_None k m : nm_get k m = None <-> ~ In k (keys m).
Proof.
  unfold keys. induction m as [|[k0 v0] m IH]; simpl; [tauto|].
  destruct (name_eqb k k0) eqn:E.
  - apply name_eqb_eq in E. subst. split; [discriminate | intro H; exfalso; apply H; now left].
  - apply name_eqb_neq in E. rewrite IH. split; [intros H [H'|H']; [congruence | contradiction] | tauto].
Qed.
Lemma nm_get_Some_In k v m : nm_get k m = Some v -> In k (keys m).
Proof.
  intro H. destruct (in_dec name_dec k (keys m)) as [I|N]; [assumption|].
  apply nm_get_None in N. congruence.
Qed.
Lemma nm_get_In_pair k v m : nm_get k m = Some v -> In (k, v) m.
Proof.
  induction m as [|[k0 v0] m IH]; simpl; [discriminate|].
  destruct (name_eqb k k0) eqn:E.
  - apply name_eqb_eq in E. subst. intro H. inversion H. now left.
  - intro H. right. now apply IH.
Qed.
Lemma nm_In_pair_get k v m : NoDup (keys m) -> In (k, v) m -> nm_get k m = Some v.
Proof.
  unfold keys. induction m as [|[k0 v0] m IH]; simpl; intros N I; [contradiction|].
  inversion N as [|? ? Hn Hd]; subst. destruct I as [I|I].
  - inversion I; subst. now rewrite name_eqb_refl.
  - destruct (name_eqb k k0) eqn:E; [|now apply IH].
    apply name_eqb_eq in E. subst. exfalso. apply Hn. apply in_map_iff. exists (k0, v). tauto.
Qed.
Lemma nm_del_keys_In k m x : NoDup (keys m) -> (In x (keys (nm_del k m)) <-> x <> k /\ In x (keys m)).
Proof.
  unfold keys. induction m as [|[k0 v0] m IH]; simpl; intro N; [tauto|].
  inversion N as [|? ? Hn Hd]; subst. destruct (name_eqb k k0) eqn:E; simpl.
  - apply name_eqb_eq in E. subst. split.
    + intro I. split; [intros ->; contradiction | now right].
    + intros [Hx [->|I]]; [congruence | assumption].
  - apply name_eqb_neq in E. rewrite (IH Hd). split.
    + intros [->|[Hx I]]; [split; [congruence | now left] | tauto].
    + intros [Hx [->|I]]; [now left | right; tauto].
Qed.
Lemma nm_del_NoDup k m : NoDup (keys m) -> NoDup (keys (nm_del k m)).
Proof.
  unfold keys. induction m as [|[k0 v0] m IH]; simpl; intro N; [constructor|].
  inversion N as [|? ? Hn Hd]; subst. destruct (name_eqb k k0); simpl; [assumption|].
  constructor; [|now apply IH]. intro I. fold (keys (nm_del k m)) in I.
  apply (nm_del_keys_In k m k0 Hd) in I. tauto.
Qed.
Lemma nm_get_del_same k m : NoDup (keys m) -> nm_get k (nm_del k m) = None.
Proof. intro N. apply nm_get_None. intro I. apply (nm_del_keys_In k m k N) in I. tauto. Qed.
Lemma nm_get_del_other k k' m : k' <> k -> nm_get k' (nm_del k m) = nm_get k' m.
Proof.
  intro H. induction m as [|[k0 v0] m IH]; simpl; [reflexivity|].
  destruct (name_eqb k k0) eqn:E; simpl.
  - apply name_eqb_eq in E. subst. apply name_eqb_neq in H. now rewrite H.
  - destruct (name_eqb k' k0); [reflexivity | exact IH].
Qed.
End NMapLaws.

(* the per-segment track dicts are the same structure *)
Lemma d_get_nm k d : d_get k d = nm_get k d.
Proof. induction d as [|[k' v] d IH]; simpl; [reflexivity|]. destruct (name_eqb k k'); [reflexivity | exact IH]. Qed.
Lemma d_set_nm k v d : d_set k v d = nm_set k v d.
Proof. induction d as [|[k' v'] d IH]; simpl; [reflexivity|]. destruct (name_eqb k k'); [reflexivity | now rewrite IH]. Qed.
Lemma d_del_nm k d : d_del k d = nm_del k d.
Proof. induction d as [|[k' v'] d IH]; simpl; [reflexivity|]. destruct (name_eqb k k'); [reflexivity | now rewrite IH]. Qed.

(* ---- SortedDict keyed by segments ---- *)
Definition skeys (m : tmap) : list seg := map fst m.
Lemma sd_get_set_same s d m : sd_get s (sd_set s d m) = Some d.
Proof.
  induction m as [|[s' d'] m IH]; simpl; [now rewrite seqb_refl|].
  destruct (seqb s s') eqn:E; simpl; [now rewrite E|].
  destruct (sltb s s'); simpl; [now rewrite seqb_refl | rewrite E; exact IH].
Qed.
Lemma sd_get_set_other s s' d m : s' <> s -> sd_get s' (sd_set s d m) = sd_get s' m.
Proof.
  intro H. apply seqb_false_neq in H. induction m as [|[s0 d0] m IH]; simpl.
  - now rewrite H.
  - destruct (seqb s s0) eqn:E; simpl.
    + apply seqb_eq in E. subst s0. now rewrite H.
    + destruct (sltb s s0); simpl; [now rewrite H|]. destruct (seqb s' s0); [reflexivity | exact IH].
Qed.
Lemma sd_set_keys_In s d m x : In x (skeys (sd_set s d m)) <-> x = s \/ In x (skeys m).
Proof.
  unfold skeys. induction m as [|[s0 d0] m IH]; simpl; [intuition|].
  destruct (seqb s s0) eqn:E; simpl.
  - apply seqb_eq in E. subst. intuition.
  - destruct (sltb s s0); simpl; [intuition|]. rewrite IH. intuition.
Qed.
Lemma sd_set_sorted s d m : ssorted (skeys m) -> ssorted (skeys (sd_set s d m)).
Proof.
  unfold skeys. induction m as [|[s0 d0] m IH]; simpl; intro H; [repeat constructor|].
  apply ssorted_inv in H as [Hs F]. destruct (seqb s s0) eqn:E; simpl.
  - now apply ssorted_cons.
  - destruct (sltb s s0) eqn:L; simpl.
    + apply ssorted_cons; [now apply ssorted_cons|]. constructor; [exact L|].
      eapply Forall_impl; [|exact F]. intros a Ha. eapply slt_trans; [exact L | exact Ha].
    + apply ssorted_cons; [now apply IH|]. rewrite Forall_forall in *. intros x Hx.
      fold (skeys (sd_set s d m)) in Hx. apply sd_set_keys_In in Hx as [->|Hx]; [|now apply F].
      apply sltb_false_cases in L as [->|L]; [rewrite seqb_refl in E; discriminate | exact L].
Qed.
Lemma sd_get_None s m : sd_get s m = None <-> ~ In s (skeys m).
Proof.
  unfold skeys. induction m as [|[s0 d0] m IH]; simpl; [tauto|].
  destruct (seqb s s0) eqn:E.
  - apply seqb_eq in E. subst. split; [discriminate | intro H; exfalso; apply H; now left].
  - apply seqb_false_neq in E. rewrite IH. split; [intros H [H'|H']; [congruence | contradiction] | tauto].
Qed.
Lemma sd_get_In_pair s d m : sd_get s m = Some d -> In (s, d) m.
Proof.
  induction m as [|[s0 d0] m IH]; simpl; [discriminate|].
  destruct (seqb s s0) eqn:E; [apply seqb_eq in E; subst; intro H; inversion H; now left | intro H; right; now apply IH].
Qed.
Lemma sd_In_pair_get s d m : NoDup (skeys m) -> In (s, d) m -> sd_get s m = Some d.
Proof.
  unfold skeys. induction m as [|[s0 d0] m IH]; simpl; intros N I; [contradiction|].
  inversion N as [|? ? Hn Hd]; subst. destruct I as [I|I].
  - inversion I; subst. now rewrite seqb_refl.
  - destruct (seqb s s0) eqn:E; [|now apply IH].
    apply seqb_eq in E. subst. exfalso. apply Hn. apply in_map_iff. exists (s0, d). tauto.
Qed.
Lemma sd_del_keys_In s m x : NoDup (skeys m) -> (In x (skeys (sd_del s m)) <-> x <> s /\ In x (skeys m)).
Proof.
  unfold skeys. induction m as [|[s0 d0] m IH]; simpl; intro N; [tauto|].
  inversion N as [|? ? Hn Hd]; subst. destruct (seqb s s0) eqn:E; simpl.
  - apply seqb_eq in E. subst. split.
    + intro I. split; [intros ->; contradiction | now right].
    + intros [Hx [->|I]]; [congruence | assumption].
  - apply seqb_false_neq in E. rewrite (IH Hd). split.
    + intros [->|[Hx I]]; [split; [congruence | now left] | tauto].
    + intros [Hx [->|I]]; [now left | right; tauto].
Qed.
Lemma sd_del_sorted s m : ssorted (skeys m) -> ssorted (skeys (sd_del s m)).
Proof.
  unfold skeys. induction m as [|[s0 d0] m IH]; simpl; intro H; [constructor|].
  apply ssorted_inv in H as [Hs F]. destruct (seqb s s0); simpl; [assumption|].
  apply ssorted_cons; [now apply IH|]. rewrite Forall_forall in *. intros x Hx.
  fold (skeys (sd_del s m)) in Hx. apply (sd_del_keys_In s m x (ssorted_NoDup _ Hs)) in Hx. now apply F.
Qed.
Lemma sd_get_del_same s m : NoDup (skeys m) -> sd_get s (sd_del s m) = None.
Proof. intro N. apply sd_get_None. intro I. apply (sd_del_keys_In s m s N) in I. tauto. Qed.
Lemma sd_get_del_other s s' m : s' <> s -> sd_get s' (sd_del s m) = sd_get s' m.
Proof.
  intro H. apply seqb_false_neq in H. induction m as [|[s0 d0] m IH]; simpl; [reflexivity|].
  destruct (seqb s s0) eqn:E; simpl.
  - apply seqb_eq in E. subst. now rewrite H.
  - destruct (seqb s' s0); [reflexivity | exact IH].
Qed.
