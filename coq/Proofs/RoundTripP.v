(* C12: rebuilding an annotation from the records produced by track iteration gives an equal object. *)
From PV Require Import Model.AnnotationOps Proofs.SegmentP Proofs.SortedP Proofs.SupportP Proofs.DictP
  Proofs.AnnotationInvP Proofs.CanonicalIterP Proofs.TextEqP Proofs.FeatureP.

Section RoundTrip.
Variable eps : Z.

Lemma lookup_setitem m s t l s' t' :
  lookup (setitem_tracks m s t l) s' t' = if seqb s' s && name_eqb t' t then Some l else lookup m s' t'.
Proof.
  unfold lookup, setitem_tracks. destruct (seqb s' s) eqn:Es.
  - apply seqb_eq in Es. subst s'. rewrite sd_get_set_same, d_set_nm. cbn [andb].
    destruct (name_eqb t' t) eqn:Et.
    + apply name_eqb_eq in Et. subst. apply nm_get_set_same.
    + apply name_eqb_neq in Et. rewrite nm_get_set_other by assumption. destruct (sd_get s m); reflexivity.
  - apply seqb_false_neq in Es. rewrite sd_get_set_other by assumption. reflexivity.
Qed.

Definition has_key (recs : list triple) (s : seg) (t : name) : bool :=
  existsb (fun x : triple => seqb s (fst (fst x)) && name_eqb t (snd (fst x))) recs.
Definition functional (recs : list triple) : Prop :=
  forall s t l l', In (s, t, l) recs -> In (s, t, l') recs -> l = l'.

Lemma build_lookup recs : forall m s t,
  functional recs ->
  (forall l, In (s, t, l) recs -> lookup (build_tracks recs m) s t = Some l) /\
  (has_key recs s t = false -> lookup (build_tracks recs m) s t = lookup m s t).
Proof.
  unfold build_tracks. induction recs as [|[[sx tx] lx] recs IH]; intros m s t F; cbn [fold_left].
  - split; [intros l [] | reflexivity].
  - assert (F' : functional recs) by (intros a b c d H1 H2; apply (F a b c d); now right).
    destruct (IH (setitem_tracks m sx tx lx) s t F') as [IH1 IH2]. cbn [fst snd] in *. split.
    + intros l [E|I]; [|now apply IH1]. inversion E; subst.
      destruct (has_key recs s t) eqn:Hk.
      * unfold has_key in Hk. apply existsb_exists in Hk as [[[s2 t2] l2] [I2 E2]]. cbn [fst snd] in E2.
        apply andb_true_iff in E2 as [E21 E22]. apply seqb_eq in E21. apply name_eqb_eq in E22. subst.
        assert (l2 = l) by (apply (F s2 t2 l2 l); [now right | now left]). subst. now apply IH1.
      * rewrite (IH2 eq_refl), lookup_setitem, seqb_refl, name_eqb_refl. reflexivity.
    + intro Hk. unfold has_key in Hk. cbn [existsb fst snd] in Hk. apply orb_false_iff in Hk as [Hx Hr].
      rewrite (IH2 Hr), lookup_setitem, Hx. reflexivity.
Qed.

Lemma has_key_false recs s t : has_key recs s t = false -> forall l, ~ In (s, t, l) recs.
Proof.
  intros H l I. assert (has_key recs s t = true); [|congruence].
  unfold has_key. apply existsb_exists. exists (s, t, l). split; [assumption|]. cbn. now rewrite seqb_refl, name_eqb_refl.
Qed.

Lemma itertracks_functional m : WF eps m -> functional (itertracks_m m).
Proof.
  intros W s t l l' H1 H2. apply (itertracks_In eps m s t l W) in H1 as [d [E1 G1]].
  apply (itertracks_In eps m s t l' W) in H2 as [d' [E2 G2]]. congruence.
Qed.
Lemma itertracks_lookup m s t l : WF eps m -> (In (s, t, l) (itertracks_m m) <-> lookup m s t = Some l).
Proof.
  intro W. rewrite (itertracks_In eps m s t l W). unfold lookup. split.
  - intros [d [E G]]. now rewrite E.
  - destruct (sd_get s m) as [d|]; [intro H; exists d; tauto | discriminate].
Qed.

Theorem rebuilt_lookup a s t : AInv eps a ->
  lookup (build_tracks (itertracks a) []) s t = lookup (a_tracks a) s t.
Proof.
  intro I. pose proof (i_wf _ _ I) as W. unfold itertracks.
  destruct (build_lookup (itertracks_m (a_tracks a)) [] s t (itertracks_functional _ W)) as [B1 B2].
  destruct (lookup (a_tracks a) s t) as [l|] eqn:E.
  - apply B1. now apply itertracks_lookup.
  - destruct (has_key (itertracks_m (a_tracks a)) s t) eqn:Hk.
    + unfold has_key in Hk. apply existsb_exists in Hk as [[[s2 t2] l2] [I2 E2]]. cbn [fst snd] in E2.
      apply andb_true_iff in E2 as [E21 E22]. apply seqb_eq in E21. apply name_eqb_eq in E22. subst.
      apply (itertracks_lookup _ s2 t2 l2 W) in I2. congruence.
    + rewrite (B2 eq_refl). reflexivity.
Qed.

Lemma records_all_nonempty a : AInv eps a ->
  filter (fun x : triple => nonempty eps (fst (fst x))) (itertracks a) = itertracks a.
Proof.
  intro I. apply filter_all. intros [[s t] l] H. cbn [fst]. pose proof (i_wf _ _ I) as W.
  apply (itertracks_In eps _ s t l W) in H as [d [E _]].
  apply (stored_segments_nonempty eps a s I). now apply (sd_get_Some_In s d).
Qed.

Lemma distinct_str_transfer m1 m2 : WF eps m1 -> WF eps m2 ->
  (forall s t, lookup m1 s t = lookup m2 s t) -> all_distinct_str m2 -> all_distinct_str m1.
Proof.
  intros W1 W2 E D. unfold all_distinct_str in *. rewrite Forall_forall in *. intros [s d1] H1. cbn [snd].
  assert (G1 : sd_get s m1 = Some d1) by (apply sd_In_pair_get; [apply ssorted_NoDup, W1 | assumption]).
  pose proof (wf_dicts _ _ W1) as F1. rewrite Forall_forall in F1. destruct (F1 _ H1) as [Hne N1]. cbn [snd] in *.
  (* the segment is a key of m2 as well *)
  destruct d1 as [|[t0 l0] r0]; [contradiction|].
  assert (L0 : lookup m2 s t0 = Some l0) by (rewrite <- E; unfold lookup; rewrite G1; simpl; now rewrite name_eqb_refl).
  unfold lookup in L0. destruct (sd_get s m2) as [d2|] eqn:G2; [|discriminate].
  specialize (D (s, d2) (sd_get_In_pair _ _ _ G2)). cbn [snd] in D.
  pose proof (wf_dicts _ _ W2) as F2. rewrite Forall_forall in F2. destruct (F2 _ (sd_get_In_pair _ _ _ G2)) as [_ N2]. cbn [snd] in *.
  intros x y Hx Hy Hxy. apply D; [| |assumption].
  - destruct x as [t l]. apply nm_get_In_pair. specialize (E s t). unfold lookup in E. rewrite G1, G2 in E. rewrite <- E.
    now apply nm_In_pair_get.
  - destruct y as [t l]. apply nm_get_In_pair. specialize (E s t). unfold lookup in E. rewrite G1, G2 in E. rewrite <- E.
    now apply nm_In_pair_get.
Qed.

(* Annotation.from_records(a.itertracks(yield_label=True)) == a *)
Theorem records_roundtrip a u md : AInv eps a -> all_distinct_str (a_tracks a) ->
  ann_eq (from_records eps (itertracks a) u md) a = true.
Proof.
  intros I D. apply ann_eq_spec. unfold itertracks at 1 3.
  rewrite from_records_tracks, (records_all_nonempty a I).
  pose proof (AInv_from_records eps (itertracks a) u md) as I'. pose proof (i_wf _ _ I') as W'.
  rewrite from_records_tracks, (records_all_nonempty a I) in W'.
  apply (itertracks_canonical eps); try assumption; [apply I | | intros s t; now apply rebuilt_lookup].
  apply (distinct_str_transfer _ (a_tracks a)); try assumption; [apply I | intros s t; now apply rebuilt_lookup].
Qed.
End RoundTrip.
