(* Cross-model consistency: the timeline of a cropped / extruded annotation is the cropped /
   extruded timeline of the annotation (C05 and C07 describe the same operation at two levels). *)
From PV Require Import Model.AnnotationOps Proofs.SegmentP Proofs.SortedP Proofs.TimelineInvP Proofs.SupportP
  Proofs.CropP Proofs.DictP Proofs.AnnotationInvP Proofs.AnnCropP Proofs.AnnCropInterP.

Section Commute.
Variable eps : Z.
Hypothesis Heps : 0 <= eps.

Lemma keys_sd_get m s : In s (skeys m) <-> sd_get s m <> None.
Proof.
  split; intro H.
  - intro E. apply sd_get_None in E. contradiction.
  - destruct (in_dec seg_eq_dec s (skeys m)) as [Hin|Hn]; [exact Hin|]. apply sd_get_None in Hn. contradiction.
Qed.
Lemma filter_keys_sorted (f : seg * tracks_t -> bool) (m : tmap) : ssorted (skeys m) -> ssorted (skeys (filter f m)).
Proof.
  unfold skeys. induction m as [|x m IH]; cbn [filter map]; intro H; [exact H|].
  apply ssorted_inv in H as [Hs F]. destruct (f x); cbn [map]; [|now apply IH].
  apply ssorted_cons; [now apply IH|]. rewrite Forall_forall in *. intros y Hy. apply F.
  apply in_map_iff in Hy as [z [E Hz]]. apply filter_In in Hz as [Hz _]. apply in_map_iff. exists z. tauto.
Qed.

Lemma existsb_regions (f : seg -> bool) l : existsb f l = true <-> exists r, In r l /\ f r = true.
Proof. apply existsb_exists. Qed.

Theorem crop_commutes a S md : AInv eps a ->
  skeys (a_tracks (crop_ann eps a S md)) = crop eps (skeys (a_tracks a)) S md.
Proof.
  intro I. pose proof (i_wf _ _ I) as W.
  assert (Wk : wf eps (skeys (a_tracks a))) by (split; apply W).
  apply ssorted_ext; [| apply (crop_wf eps (skeys (a_tracks a)) S md) |].
  - destruct md.
    + unfold crop_ann, fresh_from_tracks. cbn [a_tracks]. unfold restrict_tracks.
      apply filter_keys_sorted, W.
    + unfold crop_ann, fresh_from_tracks. cbn [a_tracks]. unfold restrict_tracks.
      apply filter_keys_sorted, W.
    + destruct (crop_inter_entries eps Heps a S I) as [J _]. apply (i_wf _ _ J).
  - intro x. destruct md.
    + rewrite keys_sd_get, (crop_loose_tracks eps Heps a S x I), (crop_loose_spec eps Heps _ Wk S x).
      destruct (existsb (fun r => intersects eps x r) (norm_support eps S)) eqn:E.
      * apply existsb_regions in E. rewrite <- keys_sd_get. tauto.
      * split; [congruence|]. intros [_ [r [Hr Hi]]]. exfalso.
        assert (existsb (fun r => intersects eps x r) (norm_support eps S) = true) by (apply existsb_regions; eauto). congruence.
    + rewrite keys_sd_get, (crop_strict_tracks eps Heps a S x I), (crop_strict_spec eps Heps _ Wk S x).
      destruct (existsb (fun r => intersects eps x r && sin r x) (norm_support eps S)) eqn:E.
      * apply existsb_regions in E as [r [Hr Hi]]. apply andb_true_iff in Hi as [_ Hs]. rewrite <- keys_sd_get.
        split; [intro H; split; [exact H | eauto] | tauto].
      * split; [congruence|]. intros [Hx [r [Hr Hs]]]. exfalso.
        assert (existsb (fun r => intersects eps x r && sin r x) (norm_support eps S) = true); [|congruence].
        apply existsb_regions. exists r. split; [exact Hr|]. rewrite Hs, andb_true_r.
        apply (included_intersects eps); [|exact Hs]. pose proof (wf_nonempty _ _ W) as F. rewrite Forall_forall in F. now apply F.
    + destruct (crop_inter_entries eps Heps a S I) as [J P]. pose proof (i_wf _ _ J) as Wc.
      rewrite (crop_inter_spec eps Heps _ Wk S x). split.
      * intro Hx. unfold skeys in Hx. apply in_map_iff in Hx as [[x0 d] [E Hm]]. cbn [fst] in E. subst x0.
        pose proof (wf_dicts _ _ Wc) as F. rewrite Forall_forall in F. destruct (F _ Hm) as [Hne _]. cbn [snd] in Hne.
        destruct d as [|[t l] d]; [congruence|].
        assert (Hl : In (x, l) (entries (a_tracks (crop_ann eps a S Inter)))).
        { unfold entries. apply in_flat_map. exists (x, (t, l) :: d). split; [exact Hm | now left]. }
        apply (Permutation_in _ P) in Hl. apply in_flat_map in Hl as [[s r] [Hp Hin]]. cbn [fst snd] in Hin.
        apply in_map_iff in Hin as [tl_ [E _]]. inversion E; subst.
        apply (co_iter_In_and eps Heps _ _ s r Wk (norm_support_wf eps S)) in Hp as [Hs [Hr Hn]].
        exists s, r. tauto.
      * intros [s [r [Hs [Hr [-> Hn]]]]].
        assert (Hd : exists d, sd_get s (a_tracks a) = Some d) by (destruct (sd_get s (a_tracks a)) eqn:E; [eauto | apply sd_get_None in E; contradiction]).
        destruct Hd as [d Hd]. pose proof (wf_dicts _ _ W) as F. rewrite Forall_forall in F.
        destruct (F (s, d) (sd_get_In_pair s d _ Hd)) as [Hne _]. cbn [snd] in Hne. destruct d as [|[t l] d]; [congruence|].
        assert (Hl : In (sand s r, l) (entries (a_tracks (crop_ann eps a S Inter)))).
        { apply (Permutation_in _ (Permutation_sym P)). apply in_flat_map. exists (s, r). split.
          - apply (co_iter_In_and eps Heps _ _ s r Wk (norm_support_wf eps S)). tauto.
          - cbn [fst snd]. unfold tracks_at. rewrite Hd. now left. }
        unfold entries in Hl. apply in_flat_map in Hl as [[x0 d0] [Hm Hin]]. cbn [fst snd] in Hin.
        apply in_map_iff in Hin as [tl_ [E _]]. inversion E; subst. unfold skeys. apply in_map_iff. exists (sand s r, d0). tauto.
Qed.

Corollary extrude_commutes a R md : AInv eps a ->
  skeys (a_tracks (extrude_ann eps a R md)) = extrude eps (skeys (a_tracks a)) R md.
Proof.
  intro I. rewrite extrude_def, (crop_commutes a _ (swap_mode md) I). unfold extrude.
  fold (skeys (a_tracks a)). now rewrite (tline_is_keys eps _ (i_wf _ _ I)).
Qed.
End Commute.
