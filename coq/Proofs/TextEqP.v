(* C12: equality as content equality, text forms. *)
From PV Require Import Model.Text Proofs.SegmentP Proofs.SortedP Proofs.DictP Proofs.WindowP.

(* ---- == / != ---- *)
Lemma triple_eqb_eq x y : triple_eqb x y = true <-> x = y.
Proof.
  destruct x as [[s t] l], y as [[s' t'] l']. unfold triple_eqb. cbn [fst snd].
  rewrite !andb_true_iff, seqb_eq, !name_eqb_eq. split; [intros [[-> ->] ->]; reflexivity | intro H; inversion H; tauto].
Qed.
Theorem ann_eq_spec a b : ann_eq a b = true <-> itertracks a = itertracks b.
Proof. unfold ann_eq. apply list_eqb_spec. intros x y. apply triple_eqb_eq. Qed.
Theorem ann_ne_spec a b : ann_ne a b = negb (ann_eq a b).
Proof. reflexivity. Qed.
(* equality ignores uri, modality and every cache: it only looks at the track map *)
Theorem ann_eq_ignores_metadata a b :
  a_tracks a = a_tracks b -> ann_eq a b = true.
Proof. intro H. apply ann_eq_spec. unfold itertracks. now rewrite H. Qed.
(* the track iteration lists every (segment, track, label) of the map exactly once ... *)
Theorem ann_eq_same_triples a b : ann_eq a b = true ->
  forall x, In x (itertracks a) <-> In x (itertracks b).
Proof. intro H. apply ann_eq_spec in H. now rewrite H. Qed.
(* ... so any single-element perturbation flips equality *)
Theorem perturbation_flips a b x : In x (itertracks a) -> ~ In x (itertracks b) -> ann_eq a b = false.
Proof.
  intros Ha Hb. destruct (ann_eq a b) eqn:E; [|reflexivity]. exfalso. apply Hb. now apply (ann_eq_same_triples a b E).
Qed.
Theorem length_differs_flips a b : length (itertracks a) <> length (itertracks b) -> ann_eq a b = false.
Proof.
  intro H. destruct (ann_eq a b) eqn:E; [|reflexivity]. apply ann_eq_spec in E. now rewrite E in H.
Qed.

(* ---- f"{x:.3f}" is within half a millisecond of x = n / scale ---- *)
Theorem fmt3_value_within_half_ms scale n : 0 < scale ->
  let m := rhe (Z.abs n * 1000) scale in 2 * Z.abs (m * scale - Z.abs n * 1000) <= scale.
Proof. intro H. apply rhe_spec. exact H. Qed.
(* str(segment): rounded to the microsecond, truncated to the millisecond: within one millisecond *)
Theorem str_helper_within_1ms scale n : 0 < scale ->
  let ms := Z.abs (str_helper_ms scale n) in
  - scale <= 2 * (Z.abs n * 1000000 - ms * 1000 * scale) < 2 * 1000 * scale + scale.
Proof.
  intro H. unfold str_helper_ms. cbv zeta.
  pose proof (rhe_spec (Z.abs n * 1000000) scale H) as R.
  set (us := rhe (Z.abs n * 1000000) scale) in *.
  assert (Hus : 0 <= us).
  { unfold us, rhe. pose proof (Z.div_pos (Z.abs n * 1000000) scale ltac:(lia) H).
    destruct (2 * ((Z.abs n * 1000000) mod scale) <? scale); [assumption|].
    destruct (2 * ((Z.abs n * 1000000) mod scale) >? scale); [lia|]. destruct (Z.even _); lia. }
  pose proof (Z.div_mod us 1000 ltac:(lia)). pose proof (Z.mod_pos_bound us 1000 ltac:(lia)).
  assert (0 <= us / 1000) by (apply Z.div_pos; lia).
  replace (Z.abs ((if n <? 0 then -1 else 1) * (us / 1000))) with (us / 1000) by (destruct (n <? 0); lia).
  nia.
Qed.

(* ---- RTTM / LAB / UEM: one line per track / segment in iteration order; refused iff a space ---- *)
Theorem rttm_refused_iff eps scale a :
  rttm_lines eps scale a = None <->
  (uri_has_space (a_uri a) = true \/ exists x, In x (itertracks a) /\ name_has_space (snd x) = true).
Proof.
  unfold rttm_lines. destruct (uri_has_space (a_uri a)) eqn:E1; cbn [orb].
  - split; [now left | reflexivity].
  - destruct (existsb (fun x : triple => name_has_space (snd x)) (itertracks a)) eqn:E2.
    + split; [|reflexivity]. intros _. right. now apply existsb_exists in E2.
    + split; [discriminate|]. intros [H|[x [Hx Hs]]]; [discriminate|].
      assert (existsb (fun x : triple => name_has_space (snd x)) (itertracks a) = true) by (apply existsb_exists; eauto). congruence.
Qed.
Theorem rttm_one_line_per_track eps scale a ls :
  rttm_lines eps scale a = Some ls -> length ls = length (itertracks a).
Proof.
  unfold rttm_lines. destruct (_ || _); [discriminate|]. intro H. inversion H. now rewrite map_length.
Qed.
Theorem lab_refused_iff eps scale a :
  lab_lines eps scale a = None <-> exists x, In x (itertracks a) /\ name_has_space (snd x) = true.
Proof.
  unfold lab_lines. destruct (existsb (fun x : triple => name_has_space (snd x)) (itertracks a)) eqn:E2.
  - split; [|reflexivity]. intros _. now apply existsb_exists in E2.
  - split; [discriminate|]. intros [x [Hx Hs]].
    assert (existsb (fun x : triple => name_has_space (snd x)) (itertracks a) = true) by (apply existsb_exists; eauto). congruence.
Qed.
Theorem uem_refused_iff scale u t : uem_lines scale u t = None <-> uri_has_space u = true.
Proof. unfold uem_lines. destruct (uri_has_space u); split; intro H; try reflexivity; discriminate. Qed.
Theorem uem_one_line_per_segment scale u t ls : uem_lines scale u t = Some ls -> length ls = length t.
Proof. unfold uem_lines. destruct (uri_has_space u); [discriminate|]. intro H. inversion H. now rewrite map_length. Qed.

(* ---- chronological order of track iteration, hence of RTTM / LAB lines ---- *)
From PV Require Import Proofs.SortedP Proofs.DictP Proofs.AnnotationInvP.
Definition sle (a b : seg) : Prop := a = b \/ slt a b.
Lemma StronglySorted_app {A} (R : A -> A -> Prop) l1 l2 :
  StronglySorted R l1 -> StronglySorted R l2 -> (forall x y, In x l1 -> In y l2 -> R x y) ->
  StronglySorted R (l1 ++ l2).
Proof.
  induction l1 as [|a l1 IH]; intros S1 S2 H; [exact S2|]. cbn [app]. inversion S1 as [|? ? S1' F]; subst.
  constructor; [apply IH; [assumption | assumption | intros x y Hx Hy; apply H; [now right | assumption]]|].
  apply Forall_app. split; [exact F|]. rewrite Forall_forall. intros y Hy. apply H; [now left | exact Hy].
Qed.
Theorem itertracks_chronological eps m : WF eps m ->
  StronglySorted sle (map (fun x : triple => fst (fst x)) (itertracks_m m)).
Proof.
  intro W. pose proof (wf_sorted _ _ W) as Hs. clear W. unfold itertracks_m, skeys in *.
  induction m as [|[s d] m IH]; cbn [flat_map map]; [constructor|].
  cbn [map fst] in Hs. apply ssorted_inv in Hs as [Hs F]. rewrite map_app. apply StronglySorted_app.
  - cbn [fst snd]. rewrite map_map. cbn [fst]. induction (sorted_tracks d) as [|x l IHl]; cbn [map]; [constructor|].
    constructor; [exact IHl|]. rewrite Forall_forall. intros y Hy. apply in_map_iff in Hy as [z [<- _]]. now left.
  - now apply IH.
  - intros x y Hx Hy. cbn [fst snd] in Hx. rewrite map_map in Hx. cbn [fst] in Hx. apply in_map_iff in Hx as [z [<- _]].
    apply in_map_iff in Hy as [w [<- Hw]]. apply in_flat_map in Hw as [[s' d'] [Hm Hw]]. cbn [fst snd] in Hw.
    apply in_map_iff in Hw as [v [<- _]]. cbn [fst]. right. rewrite Forall_forall in F. apply F.
    apply in_map_iff. exists (s', d'). tauto.
Qed.
(* RTTM / LAB lines are the lines of the tracks in that order, one each *)
Theorem rttm_lines_chronological eps scale a ls : WF eps (a_tracks a) -> rttm_lines eps scale a = Some ls ->
  List.length ls = List.length (itertracks a) /\
  StronglySorted sle (map (fun x : triple => fst (fst x)) (itertracks a)).
Proof.
  intros W H. split; [now apply (rttm_one_line_per_track eps scale a ls) | now apply (itertracks_chronological eps)].
Qed.
