(* C07: Annotation.crop / extrude. *)
From PV Require Import Model.AnnotationOps Proofs.SegmentP Proofs.SortedP Proofs.TimelineInvP Proofs.SupportP
  Proofs.CropP Proofs.DictP Proofs.AnnotationInvP Proofs.GeneratorsP.

Section AnnCrop.
Variable eps : Z.
Hypothesis Heps : 0 <= eps.

Lemma tline_is_keys m : WF eps m -> tl_of eps (skeys m) = skeys m.
Proof. intro W. apply tl_of_id; apply W. Qed.

Lemma sd_get_restrict m keep s : NoDup (skeys m) ->
  sd_get s (restrict_tracks m keep) = if set_mem s keep then sd_get s m else None.
Proof.
  unfold restrict_tracks, skeys. induction m as [|[s0 d0] m IH]; simpl; intro N; [now destruct (set_mem s keep)|].
  inversion N as [|? ? Hn Hd]; subst. destruct (seqb s s0) eqn:E.
  - apply seqb_eq in E. subst. destruct (set_mem s0 keep) eqn:Ek; simpl; [now rewrite seqb_refl|].
    rewrite (IH Hd). try rewrite Ek. reflexivity.
  - destruct (set_mem s0 keep); simpl; [rewrite E|]; now apply IH.
Qed.

(* 'loose' / 'strict': the result is the restriction of the track map to the selected segments:
   whole segments, every track with its original name and label *)
Theorem crop_loose_tracks a S s : AInv eps a ->
  sd_get s (a_tracks (crop_ann eps a S Loose)) =
    if existsb (fun r => intersects eps s r) (norm_support eps S) then sd_get s (a_tracks a) else None.
Proof.
  intro I. pose proof (i_wf _ _ I) as W. unfold crop_ann, fresh_from_tracks. cbn [a_tracks].
  rewrite (sd_get_restrict _ _ s (ssorted_NoDup _ (wf_sorted _ _ W))).
  fold (skeys (a_tracks a)). rewrite (tline_is_keys _ W).
  assert (Wk : wf eps (skeys (a_tracks a))) by (split; apply W).
  destruct (existsb (fun r => intersects eps s r) (norm_support eps S)) eqn:Ex.
  - destruct (sd_get s (a_tracks a)) as [d|] eqn:Ed; [|now destruct (set_mem _ _)].
    replace (set_mem s (map fst (co_iter eps (skeys (a_tracks a)) (norm_support eps S)))) with true; [reflexivity|].
    symmetry. apply set_mem_In. apply existsb_exists in Ex as [r [Ir Hr]]. apply in_map_iff. exists (s, r). split; [reflexivity|].
    apply (co_iter_In eps Heps _ _ s r Wk (norm_support_wf eps S)). repeat split; auto. now apply (sd_get_Some_In s d).
  - replace (set_mem s (map fst (co_iter eps (skeys (a_tracks a)) (norm_support eps S)))) with false; [reflexivity|].
    symmetry. apply set_mem_false. intro H. apply in_map_iff in H as [[s' r] [E H]]. simpl in E. subst s'.
    apply (co_iter_In eps Heps _ _ s r Wk (norm_support_wf eps S)) in H as [_ [Ir Hr]].
    assert (existsb (fun r => intersects eps s r) (norm_support eps S) = true) by (apply existsb_exists; eauto). congruence.
Qed.
Theorem crop_strict_tracks a S s : AInv eps a ->
  sd_get s (a_tracks (crop_ann eps a S Strict)) =
    if existsb (fun r => intersects eps s r && sin r s) (norm_support eps S) then sd_get s (a_tracks a) else None.
Proof.
  intro I. pose proof (i_wf _ _ I) as W. unfold crop_ann, fresh_from_tracks. cbn [a_tracks].
  rewrite (sd_get_restrict _ _ s (ssorted_NoDup _ (wf_sorted _ _ W))).
  fold (skeys (a_tracks a)). rewrite (tline_is_keys _ W).
  assert (Wk : wf eps (skeys (a_tracks a))) by (split; apply W).
  set (sel := map fst (filter (fun p : seg * seg => sin (snd p) (fst p)) (co_iter eps (skeys (a_tracks a)) (norm_support eps S)))).
  destruct (existsb (fun r => intersects eps s r && sin r s) (norm_support eps S)) eqn:Ex.
  - destruct (sd_get s (a_tracks a)) as [d|] eqn:Ed; [|now destruct (set_mem _ _)].
    replace (set_mem s sel) with true; [reflexivity|].
    symmetry. apply set_mem_In. apply existsb_exists in Ex as [r [Ir Hr]]. apply andb_true_iff in Hr as [Hi Hs].
    apply in_map_iff. exists (s, r). split; [reflexivity|]. apply filter_In. split; [|exact Hs].
    apply (co_iter_In eps Heps _ _ s r Wk (norm_support_wf eps S)). repeat split; auto. now apply (sd_get_Some_In s d).
  - replace (set_mem s sel) with false; [reflexivity|].
    symmetry. apply set_mem_false. intro H. apply in_map_iff in H as [[s' r] [E H]]. simpl in E. subst s'.
    apply filter_In in H as [H Hs]. simpl in Hs.
    apply (co_iter_In eps Heps _ _ s r Wk (norm_support_wf eps S)) in H as [_ [Ir Hr]].
    assert (existsb (fun r => intersects eps s r && sin r s) (norm_support eps S) = true)
      by (apply existsb_exists; exists r; split; [assumption | now rewrite Hr, Hs]). congruence.
Qed.

(* uri and modality are carried over in every mode *)
Lemma setitem_meta a s t l : a_uri (setitem eps a s t l) = a_uri a /\ a_modality (setitem eps a s t l) = a_modality a.
Proof.
  unfold setitem. destruct (negb (nonempty eps s)); [split; reflexivity|].
  destruct (sd_get s (a_tracks a)); split; reflexivity.
Qed.
Definition inter_step (a : ann) (cropped : ann) (p : seg * seg) : ann :=
  let i := sand (fst p) (snd p) in
  fold_left (fun c tl_ => setitem eps c i (new_track c i (Some (fst tl_)) None) (snd tl_))
            (match sd_get (fst p) (a_tracks a) with Some d => d | None => [] end) cropped.
Lemma inner_meta i d : forall c,
  let r := fold_left (fun c tl_ => setitem eps c i (new_track c i (Some (fst tl_)) None) (snd tl_)) d c in
  a_uri r = a_uri c /\ a_modality r = a_modality c.
Proof.
  induction d as [|x d IH]; intro c; cbn [fold_left]; [split; reflexivity|].
  destruct (IH (setitem eps c i (new_track c i (Some (fst x)) None) (snd x))) as [A B]. cbv zeta in *.
  destruct (setitem_meta c i (new_track c i (Some (fst x)) None) (snd x)) as [C D]. split; congruence.
Qed.
Lemma outer_meta a pairs : forall c,
  a_uri (fold_left (inter_step a) pairs c) = a_uri c /\ a_modality (fold_left (inter_step a) pairs c) = a_modality c.
Proof.
  induction pairs as [|p pairs IH]; intro c; cbn [fold_left]; [split; reflexivity|].
  destruct (IH (inter_step a c p)) as [A B]. destruct (inner_meta (sand (fst p) (snd p)) (match sd_get (fst p) (a_tracks a) with Some d => d | None => [] end) c) as [C D].
  cbv zeta in *. unfold inter_step in A, B, C, D |- *. cbv zeta in *. split; congruence.
Qed.
Theorem crop_meta a S md : a_uri (crop_ann eps a S md) = a_uri a /\ a_modality (crop_ann eps a S md) = a_modality a.
Proof.
  unfold crop_ann. destruct md; try (split; reflexivity).
  apply (outer_meta a _ (Annotation.a_empty (a_uri a) (a_modality a))).
Qed.

(* extrude(removed, mode) IS crop on the complement of `removed` within the extent, loose and strict swapped *)
Theorem extrude_def a removed md :
  extrude_ann eps a removed md =
  crop_ann eps a (SupTl (gaps eps (match removed with SupSeg x => tl_of eps [x] | SupTl l => l end)
                              (Some (SupTl (tl_of eps [extent_l (tl_of eps (map fst (a_tracks a)))])))))
           (swap_mode md).
Proof. reflexivity. Qed.
Corollary extrude_meta a removed md :
  a_uri (extrude_ann eps a removed md) = a_uri a /\ a_modality (extrude_ann eps a removed md) = a_modality a.
Proof. rewrite extrude_def. apply crop_meta. Qed.

(* 'intersection': the name chosen for every inserted track is not yet in use on the piece, so
   no insertion overwrites an earlier one *)
Theorem inter_insertions_never_overwrite c i t :
  ~ In (new_track c i (Some t) None) (get_tracks c i) \/ (new_track c i (Some t) None = t /\ ~ In t (get_tracks c i)).
Proof.
  destruct (new_track_spec c i (Some t) None) as [H1 H2]. cbv zeta in *.
  destruct (in_dec name_dec t (get_tracks c i)) as [Hin|Hn].
  - left. apply H2. right. exists t. tauto.
  - right. split; [now apply H1 | assumption].
Qed.
End AnnCrop.

